#!/usr/bin/env python3
"""Writes the prompt given to an independent seeding sub-agent (one per property).

usage: tools/mkprompts.py <round> [Cnn ...]   -> /tmp/agent<round>_prompt_<Cnn>.txt, creates worktree /tmp/wt<round>-<Cnn>

The prompt contains the property text only (nothing from /verif) plus the list of code sites earlier
rounds already used for that property (declared off limits so that the change lands elsewhere).
"""
import glob, json, os, re, subprocess, sys

HERE = os.path.dirname(os.path.dirname(os.path.abspath(__file__)))

def sites_used(pid):
    out = set()
    for d in sorted(glob.glob(os.path.join(HERE, "seeded", pid + "*"))):
        diff = open(os.path.join(d, "patch.diff")).read()
        f = None
        for line in diff.splitlines():
            if line.startswith("+++ b/"):
                f = line[6:]
            m = re.match(r"^@@[^@]*@@ ?(.*)$", line)
            if m and f:
                out.add("%s :: %s" % (f, m.group(1).strip()[:70] or "(top of file)"))
    return sorted(out)

PREFER = """Prefer a change of one of these kinds (they are the ones reviewers miss):
  * two cooperating edits in different functions or files, each of which looks harmless or even like a
    tidy-up on its own, and which break the property only together;
  * a change that only manifests after a multi-step use of the API (build -> partition -> into_owned ->
    walk -> not -> filter_entry; any() of compiled/owned/nested inputs; FromStr; Display and re-parse);
  * a change that only manifests for an unusual but legal input: multi-byte or titlecase characters,
    escaped meta-characters, classes with ranges / negation / escapes, `$`, flags in odd places, bounds like
    `:0,` `:3,3` `:2,`, empty alternatives, rooted expressions, `..` or `.` components, trailing separators,
    deeply but legally nested groups, very long literals;
  * a change that only manifests for a particular directory layout / readdir order / symbolic link kind /
    depth or link behaviour combined with an invariant prefix, or a particular order of stacked filters."""

ROUTES = """Also consider the less-travelled routes of the public API (a change that is invisible on the common route
and only shows on one of these is ideal): `Glob::partition_or_empty` / `partition_or_tree`; walking the glob returned by
`partition` at its prefix; `walk_with_behavior` given `()`, a `LinkBehavior`, a `DepthBehavior` or a full `WalkBehavior`;
`DepthBehavior::bounded` / `bounded_at_depth_variance` / `DepthMin` / `DepthMax` / `DepthMinMax` constructors with zero, equal or
swapped arguments; `CandidatePath` made from `&Path` / `&OsStr` / non-UTF-8 bytes; `MatchedText::to_candidate_path`,
`complete`, `get` with large indices; `Entry::file_type` / `metadata` / `into_path` / `root_relative_paths` on residue and on
filtrate entries; `WalkError::path` / `depth` / conversion to `io::Error`; `Display` of globs, errors and diagnostics;
`BuildError::locations` for errors raised inside `any([...])`; `any` of zero, one or many patterns of mixed kinds;
`Glob::is_empty`, `has_semantic_literals`, `Program::text` on combinators; `escape` / `is_meta_character` /
`is_contextual_meta_character`; a combinator (`not`, `filter_entry`) that is the LAST adaptor of a chain versus one in the
middle; `FileIterator::filter_entry` closures returning `EntryResidue::File` versus `Tree` on files versus directories."""

def main():
    rnd = sys.argv[1]
    want = sys.argv[2:]
    props = [json.loads(l) for l in open(os.path.join(HERE, "properties.jsonl"))]
    for p in props:
        pid = p["id"]
        if want and pid not in want:
            continue
        wt = "/tmp/wt%s-%s" % (rnd, pid)
        out = "/tmp/seed%s-%s" % (rnd, pid)
        if not os.path.exists(wt):
            subprocess.run("git -C /repo worktree add --detach %s HEAD" % wt, shell=True, check=True, capture_output=True)
        os.makedirs(out, exist_ok=True)
        used = sites_used(pid)
        text = f"""You are helping to evaluate a verification framework for the Rust glob library `wax`
(olson-sean-k/wax). Your job is to play the part of a developer who introduces a realistic, subtle bug.

Your own scratch git worktree of the library is at {wt} (detached HEAD). Work ONLY there. Do not read or write
anything under /verif or /repo. Deliver your results to {out}/ (already created).

The property your change must break:

  id: {pid}
  title: {p['title']}
  statement: {p['statement']}

What I need from you:
 1. A source change to the library (files under {wt}/src only) that makes the library VIOLATE this property
    for at least some inputs, while
      - the crate still compiles without new warnings-as-errors, and
      - the complete existing test suite still passes:  cd {wt} && cargo test --offline --lib
        (must print `468 passed; 0 failed`). Do not edit, remove or add tests inside src/.
 2. The change must look like something a competent maintainer could plausibly write (a refactoring slip, an
    "optimisation", an off-by-one, a wrong operand, a condition in the wrong order, a lost special case) -
    not sabotage, no special-casing of magic strings, no randomness, no time, no environment variables.
 3. It must NOT be exposed by ordinary use at once: it should need something specific to manifest.
{PREFER}
{ROUTES if int(rnd) >= 6 else ""}
 4. A demonstration: an integration test file {wt}/tests/demo_{pid}.rs (plain #[test] functions using only the
    public API of wax, std and, if you need a directory tree, the `tempfile`/`build-fs-tree` dev-dependencies that
    are already in Cargo.toml) that FAILS with your change and PASSES without it:
        cd {wt} && cargo test --offline --test demo_{pid}
    Verify both directions yourself: save `git diff -- src > /tmp/my.diff`, `git apply -R /tmp/my.diff`, test, `git apply /tmp/my.diff`.
    NEVER use `git stash`: all scratch worktrees share one stash stack and changes get swapped between agents.
 5. Write {out}/patch.diff (output of `git -C {wt} diff -- src`), and {out}/notes.md saying: what you changed and
    why it looks innocent, exactly what is needed for it to manifest, the smallest input / scenario you know
    that shows it, and which inputs are NOT affected.

Sites that earlier changes for this same property already used - they are OFF LIMITS, choose a different
function (preferably a different file), and a different mechanism:
{chr(10).join('   - ' + s for s in used) if used else '   (none)'}
Also off limits in general: the `filter_map_tree` cancel logic in src/filter.rs, `WalkTree::next` / `is_dir`
caching in src/walk/mod.rs, writing case flags in `encode`, `Literal::into_owned`, `Repetition::compose`.

Practical notes: there is no network; use `cargo ... --offline`. The first build takes about a minute. Keep the
patch small (ideally under 30 changed lines). If your first idea is caught by the existing tests, try another
site rather than weakening the idea until it is trivial. Leave your change APPLIED in the worktree when you finish
(the worktree diff is what will be collected), with tests/demo_{pid}.rs present. Do not commit.
In your final answer give a five-line summary: site, mechanism, what it needs to manifest, smallest witness,
and the exact test results you observed in both directions.
"""
        open("/tmp/agent%s_prompt_%s.txt" % (rnd, pid), "w").write(text)
        print(pid, wt, len(used), "sites off limits")

main()
