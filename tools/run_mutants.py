#!/usr/bin/env python3
"""Applies each patch under /verif/mutants (or /verif/seeded/*/patch.diff) to /repo, runs the checks
named in its meta (or given on the command line), expects a VIOLATION, and reverts.

usage: tools/run_mutants.py [--tier quick] [--suite] [name-substring ...]
"""
import glob, json, os, subprocess, sys, time

def sh(cmd, **kw):
    return subprocess.run(cmd, shell=True, capture_output=True, text=True, **kw)

def main():
    args = sys.argv[1:]
    tier = "quick"
    suite = False
    if "--tier" in args:
        i = args.index("--tier"); tier = args[i + 1]; del args[i:i + 2]
    if "--suite" in args:
        suite = True; args.remove("--suite")
    items = []
    for p in sorted(glob.glob("/verif/mutants/*.patch")):
        name = os.path.basename(p)[:-6]
        meta = open(p[:-6] + ".meta").read()
        props = [l for l in meta.splitlines() if l.startswith("# breaks:")][0].split(":")[1].split()
        items.append((name, p, props))
    for p in sorted(glob.glob("/verif/seeded/*/patch.diff")):
        d = os.path.dirname(p)
        meta = json.load(open(os.path.join(d, "meta.json")))
        if meta.get("neutralised_by"):
            print("%-45s neutralised by a later repair: %s" % ("seeded-" + os.path.basename(d), meta["neutralised_by"][:60]))
            continue
        rebased = os.path.join(d, "patch.rebased.diff")
        items.append(("seeded-" + os.path.basename(d), rebased if os.path.exists(rebased) else p, meta["breaks"]))
    if args:
        items = [it for it in items if any(a in it[0] for a in args)]
    assert sh("git -C /repo status --porcelain").stdout.strip() == "", "/repo is not clean"
    results = []
    for name, patch, props in items:
        r = sh("git -C /repo apply %s" % patch)
        if r.returncode != 0:
            print("%-45s PATCH DOES NOT APPLY: %s" % (name, r.stderr.strip()[:100])); continue
        try:
            line = "%-45s" % name
            if suite:
                t = sh("cd /repo && cargo test --offline --lib 2>&1 | tail -3")
                ok = "468 passed; 0 failed" in t.stdout
                line += " suite=%s" % ("pass" if ok else "FAIL")
            for prop in props:
                s = time.time()
                # evidence of runs against a broken tree goes to a scratch directory
                os.makedirs("/tmp/waxmc-mutant-evidence/replays", exist_ok=True)
                c = sh("cd /verif && WAXMC_EVIDENCE_DIR=/tmp/waxmc-mutant-evidence ./check %s --tier %s" % (prop, tier))
                viol = [l for l in c.stdout.splitlines() if l.startswith("VIOLATION")]
                first = ""
                lines = c.stdout.splitlines()
                for i, l in enumerate(lines):
                    if l.startswith("VIOLATION") and i + 1 < len(lines):
                        first = lines[i + 1].strip()[:160]; break
                line += " | %s exit=%d viol=%d %.0fs" % (prop, c.returncode, len(viol), time.time() - s)
                results.append((name, prop, c.returncode, first))
            print(line, flush=True)
            for (n, prop, code, first) in results:
                if n == name and first:
                    print("      %s: %s" % (prop, first))
        finally:
            sh("git -C /repo checkout -- .")
    # rebuild the engine against the clean tree so that later runs start warm
    sh("cd /verif/engine && cargo build --release --offline -q -p waxmc")
    caught = sum(1 for r in results if r[2] == 1)
    print("caught %d of %d (mutant, property) pairs" % (caught, len(results)))

main()
