#!/bin/bash
# usage: tools/runall.sh [quick|thorough] [ids...]
here=$(cd "$(dirname "$0")/.." && pwd)
tier=${1:-quick}; shift
ids=${@:-$(python3 -c "import json;print(' '.join(c['property_id'] for c in json.load(open('$here/MANIFEST.json'))['checks']))")}
cd "$here"
for p in $ids; do
  s=$(date +%s)
  out=$(./check $p --tier $tier 2>&1); code=$?
  e=$(date +%s)
  echo "$p exit=$code $((e-s))s :: $(echo "$out" | tail -1 | cut -c1-120)"
  if [ $code -ne 0 ]; then echo "$out" | grep -E "VIOLATION|MACHINERY" | head -3; echo "$out" | grep -A1 VIOLATION | grep -v VIOLATION | head -3 | cut -c1-400; fi
done
