#!/usr/bin/env python3
"""Runs checks against a patched scratch copy of /repo without touching /repo itself, so that several
changes can be tried in parallel (and while other checks run against /repo).

usage: tools/run_isolated.py [--tier quick] [--expect violation|clean] <patch file> <Cnn> [<Cnn> ...]

Makes /tmp/iso-<pid>/repo (git worktree of /repo HEAD with the patch applied) and /tmp/iso-<pid>/verif (copy of
/verif without build output), points the engine at the scratch repo, builds into its own target directory, runs
the named checks (evidence goes to the scratch copy) and removes everything again. Results of such runs are
never evidence: committed evidence is written by ./check in /verif against /repo.
"""
import os, shutil, subprocess, sys, time

def sh(cmd, **kw):
    return subprocess.run(cmd, shell=True, capture_output=True, text=True, **kw)

def main():
    args = sys.argv[1:]
    tier, expect = "quick", None
    if "--tier" in args:
        i = args.index("--tier"); tier = args[i + 1]; del args[i:i + 2]
    if "--expect" in args:
        i = args.index("--expect"); expect = args[i + 1]; del args[i:i + 2]
    patch, props = os.path.abspath(args[0]), args[1:]
    name = os.path.basename(os.path.dirname(patch)) if os.path.basename(patch).startswith("patch") else os.path.basename(patch)
    root = "/tmp/iso-%d" % os.getpid()
    repo, verif = root + "/repo", root + "/verif"
    os.makedirs(root)
    status = 0
    try:
        r = sh("git -C /repo worktree add --detach %s HEAD" % repo)
        assert r.returncode == 0, r.stderr
        r = sh("git -C %s apply %s" % (repo, patch))
        if r.returncode != 0:
            print("%-40s PATCH DOES NOT APPLY: %s" % (name, r.stderr.strip()[:120])); return 3
        sh("rsync -a --exclude .git --exclude engine/target --exclude evidence/replays %s/ %s/" % (os.environ.get("VERIF_SRC", "/verif"), verif))
        sh("sed -i 's#path = \"/repo\"#path = \"%s\"#' %s/engine/waxmc/Cargo.toml" % (repo, verif))
        line = "%-40s" % name
        firsts = []
        for prop in props:
            s = time.time()
            c = sh("cd %s && ./check %s --tier %s" % (verif, prop, tier))
            viol = [l for l in c.stdout.splitlines() if l.startswith("VIOLATION")]
            lines = c.stdout.splitlines()
            for i, l in enumerate(lines):
                if l.startswith("VIOLATION") and i + 1 < len(lines):
                    firsts.append("%s: %s" % (prop, lines[i + 1].strip()[:200])); break
            if c.returncode not in (0, 1):
                firsts.append("%s: MACHINERY %s" % (prop, (c.stderr.strip().splitlines() or ["?"])[-1][:200]))
            line += " | %s exit=%d viol=%d %.0fs" % (prop, c.returncode, len(viol), time.time() - s)
            if expect == "violation" and c.returncode != 1: status = 1
            if expect == "clean" and c.returncode != 0: status = 1
        print(line, flush=True)
        for f in firsts:
            print("      " + f)
    finally:
        sh("git -C /repo worktree remove --force %s" % repo)
        shutil.rmtree(root, ignore_errors=True)
        sh("git -C /repo worktree prune")
    return status

sys.exit(main())
