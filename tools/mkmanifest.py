#!/usr/bin/env python3
"""Regenerates /verif/MANIFEST.json from the table below (kept in one place so that it stays valid)."""
import json, os, subprocess

HERE = os.path.dirname(os.path.dirname(os.path.abspath(__file__)))

MC_NOTE = ("Trusted base: regex / regex-automata / regex-syntax (versions pinned equal to /repo/Cargo.lock) implement one "
           "semantics for a pattern text; the alphabet partition derived from the pattern's HIR is sound for all of Unicode; "
           "every explored product TRANSITION (BFS tree and cross edges) is replayed through the public is_match, whose answer decides where it differs from the automaton. Program size is bounded (see evidence 'bounds'); "
           "path length is unbounded.")

FS_NOTE = ("Trusted base: walkdir and the kernel's tmpfs behave as documented; readdir order on tmpfs is reverse creation order (read back for "
           "every world and counted); worlds are bounded as stated in the evidence 'rule'.")

CHECKS = {
    "C02": dict(cat="exploration", tech="exhaustive enumeration of worlds x child orders x globs, real walks vs reference traversal",
                text="Every world up to N entries over a colliding name set in every child order, every built glob up to size 3 (4 in the thorough tier) of the file-system alphabet, both link behaviours, six base spellings and rooted / ./ ../ a/../ variants are walked for real on tmpfs; the multiset of yielded files must equal the reference traversal filtered with is_match. Plus a tree with non-UTF-8 and unusual names whose expectation is read from the file system itself.",
                ref="DESIGN.md §3 C02, §2.3", note=FS_NOTE + " is_match itself is C01's business."),
    "C03": dict(cat="model_checking", tech="explicit-state BFS of installed partition DFAs x whole-pattern DFA x ancestor monitor; exhaustive real walks",
                text="(ii) For every negation the two installed partition programs (hook H3) are explored in product with the whole pattern and the canonical-ancestor monitor over all canonical paths: completeness and tree-discard soundness. (i) Every world (link-free, and with a symbolic link to a directory read as a file) x eight underlying walks x every negation form is walked for real and compared with per-entry filtering. (ii') The same product for every built expression of a program space of its own (shapes, substitutions, families, corpus), installed through the route a real walk takes (text, compiled, owned); every negation is also consumed directly (its own next() drives the walk) and compared with the logged run.",
                ref="DESIGN.md §3 C03", note=MC_NOTE + " " + FS_NOTE),
    "C13": dict(cat="exploration", tech="stateless exhaustive exploration of verdict histories (deviation-bounded) over real walks",
                text="Every world x base walk x every set of layers from the menu in every permutation x every filter verdict history with at most k departures from 'keep' (re-execution, branching on every logged call): what the downstream consumer is fed must equal the pruned-tree model; link worlds are explored reading links as files and reading link targets. Plus: every small glob walked alone (the feed must equal the traversal pruned by its component programs, and every directory they cut must be one beneath which the complete program accepts no canonical path - exhaustive automaton search); the tree-discard soundness product of C03 over the negation menus; every stack also consumed directly (outermost layer driven by next()).",
                ref="DESIGN.md §3 C13, Appendix C", note=FS_NOTE),
    "C14": dict(cat="exploration", tech="exhaustive enumeration of worlds x globs x base spellings; entry equations on every yielded entry",
                text="Every entry yielded by every walk of the C02 space (six base spellings, rooted variant, path walks) is checked against the entry self-consistency equations; plus fixed trees of non-UTF-8 and unusual names (backslash, meta-characters, white space) and walks with depth and link behaviours.",
                ref="DESIGN.md §3 C14", note=FS_NOTE),
    "C15": dict(cat="exploration", tech="exhaustive enumeration of link worlds x depth behaviours (all constructors) x link behaviours, real walks vs reference traversal",
                text="Every small world with every placement of one (two) symbolic links of every target kind, ten globs with prefix lengths 0-2, both link behaviours and every (min,max) pair through every DepthBehavior constructor are walked for real; yields and link-cycle errors must equal the reference traversal with walkdir's identity-stack link policy; an item cap detects non-termination.",
                ref="DESIGN.md §3 C15, Appendix C", note=FS_NOTE),
    "C20": dict(cat="fault_enumeration", tech="exhaustive placement of <= 2 faults x stacks; full item sequence vs reference traversal, run unprivileged",
                text="Every placement of at most two faults (unreadable directory incl. the root, dangling link, re-entrant link) in every small world, three underlying walks, both link behaviours and combinator stacks aimed at the faulty paths (also two layers discarding the same directory); the complete ordered item sequence (entries and errors with paths and depths) must equal the reference traversal under the pruned-tree model. Runs under uid 65534 so that chmod 000 is effective. Sequences are compared in a canonical sibling order with an order-free in-place check (contiguous runs per directory); every stack is also consumed directly; every error item converted to io::Error must still name the path.",
                ref="DESIGN.md §3 C20", note=FS_NOTE + " Requires setpriv for permission faults (reported in the evidence when unavailable)."),
    "C16": dict(cat="exploration", tech="stateless exhaustive exploration of stacks x permutations x verdict histories over real walks",
                text="Same exploration as C13; oracle: every filter layer is called exactly once per fed entry (also for entries discarded upstream), the yield is the set every layer keeps, identical for every permutation of the stack. Every stack is also consumed directly (the outermost layer's own next() drives the walk); items and call logs must equal those of the logged run.",
                ref="DESIGN.md §3 C16", note=FS_NOTE),
    "C01": dict(cat="model_checking", tech="explicit-state BFS of implDFA x referenceDFA x unspecified-clause monitor, all paths",
                text="For every built expression of the bounded program space whose documented meaning is specified, all reachable states of the product of the implementation's automaton, an independently compiled reference automaton of the documented semantics and the U1-U3 monitor are explored; any state where acceptance differs is a counterexample of unbounded length; every state is replayed through is_match. any() of pairs of patterns (text, compiled, nested routes) is decided the same way against the union of the reference languages.",
                ref="DESIGN.md §3 C01, §2.4", note=MC_NOTE + " The reference is three-valued (U1-U5, DESIGN §2.4)."),
    "C04": dict(cat="exploration", tech="bounded-path exhaustive exploration (automaton-guided: every accepted path up to L) of Program::matched against capture laws",
                text="For every built expression of the program space, every path up to length L over representative characters that keeps the implementation's automaton alive is visited (so every accepted path up to L is checked); matched/is_match agreement, index range, one-to-one correspondence (index and span) with the expression's capturing tokens, also on the partitioned glob, sub-slice / order / disjointness, gap languages, per-kind shape laws, the capture's own reference sub-language, owned = borrowed. Plus the long-path family (paths of 2^8, 2^16 (2^17, 2^20) bytes +-1 with captures beyond the boundary).",
                ref="DESIGN.md §3 C04, Appendix E", note="Captures are not a regular property of the automaton: path length is genuinely bounded (stated in the evidence). Language laws are skipped where the documented meaning is unspecified (U1-U5)."),
    "C19": dict(cat="exploration", tech="exhaustive enumeration of conversion routes x program space; equal compiled pattern text, queries and matched text on all live paths up to L",
                text="For every built expression every conversion route (Display+new, Clone, into_owned, FromStr, TryFrom, any of text / compiled / owned / nested, partition of owned vs borrowed) must give the same compiled pattern (hook H1), the same answer to every query and the same matched text at every index (borrowed, to_owned, into_owned) on every live path up to length L. Plus the long-path family and the partitioned glob displayed and rebuilt (same captures wherever both match).",
                ref="DESIGN.md §3 C19", note="Equal pattern text implies equal language and group structure (same regex front end); path length bounded for matched text."),
    "C05": dict(cat="exploration", tech="exhaustive short strings + closed bound / depth families in isolated worker processes; every public operation",
                text="Every string up to length L over the 22-symbol meta alphabet, every expression of the program space, the closed family of repetition bounds at and beyond the machine word and the closed family of nesting depths / widths (isolated in worker processes with address-space and CPU limits so that an abort is observed, not suffered): build, then every public operation and six candidate paths on every built glob; no panic, no abort, errors only of the three documented kinds, and a compile error only for a program that is not certainly below the back end's limits. Plus S5 the combinator family (every combinator tree of depth <= 3, arity 0..2) and S6 the alignment family (a multi-byte character at every byte offset 0..=70 around 19 constructs, through Glob::new, FromStr and any).",
                ref="DESIGN.md §3 C05", note="Trusted base: catch_unwind observes every panic; a worker that dies on a signal is attributed to the case in flight. A CPU-limit kill is reported as inconclusive, not as a verdict."),
    "C17": dict(cat="exploration", tech="exhaustive short strings (with multi-byte characters) + program space; span validity and reference token spans",
                text="Every string up to length L over the meta alphabet with 金 and é and every expression of the program space: all spans of all build errors lie inside the expression on character boundaries and slice without panicking; capture spans of every built glob and of its partition equal the reference parser's token spans. Plus the alignment family (multi-byte character at every byte offset 0..=70 around 19 constructs).",
                ref="DESIGN.md §3 C17", note="Trusted base: the reference parser's token spans (print/parse round trip checked); a span extended left over adjacent flag groups is accepted."),
    "C06": dict(cat="exploration", tech="bounded-exhaustive enumeration of the expression grammar vs a compositional three-valued reference rule checker",
                text="Every expression of the documented syntax up to the size bound (all arrangements of branches nested to depth 3 at every position, every combination of sibling branches), the reduced alphabet at larger sizes, the rule alphabet {a, /, *, **} and the boundary alphabet {a, /} at still larger sizes (7 / 9), the corpus and the size family: Glob::new(e).is_ok() must equal the verdict of a reference that evaluates the documented rules over all expansions (not by neighbour inspection); every built glob must report has_root() != Sometimes.",
                ref="DESIGN.md §3 C06, Appendix D", note="Trusted base: the reference rule checker is right where it is specified (three-valued: unspecified bands are excluded and counted); error kinds are not compared."),
    "C07": dict(cat="model_checking", tech="explicit-state BFS of the product of the implementation's own DFAs of related expressions",
                text="Algebraic laws between compiled programs, no reference semantics: for every branch site of every built expression the substitution / unrolling family, wrappings of the whole and of sub-sequences, and any() over four construction routes; all reachable tuples of the product of the members' automata. Plus a combinator of ONE pattern against the braces-wrapped pattern for every expression of a program space (the routes rebuild the token tree), and the union law on the combinator family (arity 0..2, depth <= 3).",
                ref="DESIGN.md §3 C07", note=MC_NOTE),
    "C08": dict(cat="model_checking", tech="explicit-state BFS of DFA(original) x DFA(prefix.postfix) on canonical paths; replay through Path::strip_prefix",
                text="For every built expression: Glob::partition; the law is decided on all reachable canonical states of DFA(original) x DFA(prefix followed by postfix) and every such state is replayed through the real Path::strip_prefix and postfix matcher; plus never-rooted, idempotence, suffix text, rebuild equivalence and capture spans.",
                ref="DESIGN.md §3 C08", note=MC_NOTE),
    "C18": dict(cat="model_checking", tech="exhaustive short strings + all Unicode scalars; singleton product implDFA x position-in-text",
                text="Every string up to length L over the meta alphabet, every subset of the metas, every Unicode scalar value and a family of long texts just below the size limit: escape, build, text(), self-match, and L(glob) = {s} decided on the product of the implementation's automaton with a position-in-text monitor over all paths.",
                ref="DESIGN.md §3 C18", note=MC_NOTE),
    "C09": dict(cat="model_checking", tech="explicit-state BFS of implDFA x canonical-ancestor monitor, all paths",
                text="For every expression of the bounded program space (and small any() combinators) that reports is_exhaustive()=Always, all reachable states of the product of the implementation's compiled automaton with a canonical-path / accepted-proper-ancestor monitor are explored; a non-accepting canonical state beneath an accepted ancestor is a counterexample for all path lengths.",
                ref="DESIGN.md §3 C09", note=MC_NOTE),
    "C10": dict(cat="model_checking", tech="explicit-state BFS of implDFA x saturating component counter, all canonical paths",
                text="For every built expression and small any(), all reachable states of implDFA x (canonical path, component counter saturating above the reported bounds); an accepting state outside the reported depth variance is a counterexample.",
                ref="DESIGN.md §3 C10", note=MC_NOTE),
    "C11": dict(cat="model_checking", tech="explicit-state BFS of implDFA x position-in-text monitor, all paths",
                text="For every built expression and small any() that reports invariant text t: all reachable states of implDFA x position-in-t over ALL Unicode strings (L subset of {t}), t in L unless a class lists the separator, and the syntactic converse for cased literals under (?i).",
                ref="DESIGN.md §3 C11", note=MC_NOTE),
    "C12": dict(cat="model_checking", tech="explicit-state BFS of implDFA x first-character monitor; exhaustive AST scan",
                text="has_root()=Always is checked on all reachable states of implDFA x first-character monitor (all paths); has_root()!=Sometimes and the semantic-literal scan are evaluated on every built expression of the bounded program space.",
                ref="DESIGN.md §3 C12", note=MC_NOTE),
}

NOT_YET = {}

def main():
    props = [json.loads(l) for l in open(os.path.join(HERE, "properties.jsonl"))]
    ids = [p["id"] for p in props]
    repo_commits = subprocess.run(["git", "-C", "/repo", "log", "--format=%H %s"], capture_output=True, text=True).stdout.splitlines()
    hook_commits = [l.split()[0] for l in repo_commits if "verification hook" in l]
    checks = []
    for pid in ids:
        if pid not in CHECKS:
            continue
        c = CHECKS[pid]
        checks.append({
            "property_id": pid,
            "quick_cmd": "./check %s --tier quick" % pid,
            "thorough_cmd": "./check %s --tier thorough" % pid,
            "evidence_file": "/verif/evidence/%s.json" % pid,
            "replay_cmd_template": "./check %s --replay {path}" % pid,
            "engine": "waxmc",
            "level_claimed": {"category": c["cat"], "text": c["text"], "design_ref": c["ref"]},
            "level_note": c["note"],
            "technique": c["tech"],
        })
    na = [{"property_id": pid, "reason": NOT_YET.get(pid, "check not built yet in this session (planned, see DESIGN.md §3)")}
          for pid in ids if pid not in CHECKS]
    manifest = {
        "version": 1,
        "setup_cmd": "cd /verif/engine && CARGO_NET_OFFLINE=true cargo build --release --offline -p waxmc",
        "hooks": {
            "guard": "cargo feature olson_sean_k_wax_verif",
            "enable": "the engine depends on wax = { path = \"/repo\", features = [\"olson_sean_k_wax_verif\"] }; cargo rebuilds it from /repo's working tree on every check",
            "baseline_off_cmd": "cd /repo && cargo test --workspace --no-fail-fast --offline",
            "source_commits": hook_commits,
            "add_only": True,
        },
        "engines": [{
            "name": "waxmc",
            "path": "/verif/engine",
            "serves_properties": [c["property_id"] for c in checks],
            "kind_free_text": "Rust: bounded-exhaustive program enumeration, explicit-state product exploration of the implementation's compiled automaton with property monitors / reference automata, stateless exhaustive exploration of real walks over enumerated tmpfs worlds",
        }],
        "checks": checks,
        "not_applicable": na,
        "notes": "Exit codes: 0 held, 1 VIOLATION (line printed with a replay file), 2 machinery failure (never a verdict). Known findings: /verif/known_findings.json.",
    }
    json.dump(manifest, open(os.path.join(HERE, "MANIFEST.json"), "w"), indent=1)
    print("wrote MANIFEST.json with %d checks, %d not_applicable" % (len(checks), len(na)))

main()
