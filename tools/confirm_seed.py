#!/usr/bin/env python3
"""Confirms a sub-agent's seeded change in its scratch worktree and files it under /verif/seeded.

usage: tools/confirm_seed.py <Cnn> <round> <worktree> <delivery dir> "<needs to manifest>"

Confirms (1) the pinned suite passes with the change, (2) the demonstration fails with the change
and (3) passes without it; copies patch.diff / demo / notes.md, writes meta.json (detected_by is
filled in later by hand after tools/run_mutants.py), removes the worktree.
"""
import json, os, shutil, subprocess, sys

def sh(cmd, **kw):
    return subprocess.run(cmd, shell=True, capture_output=True, text=True, **kw)

def main():
    pid, rnd, wt, out, needs = sys.argv[1:6]
    head = sh("git -C %s rev-parse --short HEAD" % wt).stdout.strip()
    # the delivered patch is authoritative (worktrees of one repository share the stash stack, and
    # sub-agents using `git stash` have swapped changes before): reset the worktree to it
    delivered = open(os.path.join(out, "patch.diff")).read()
    diff = sh("git -C %s diff -- src" % wt).stdout
    if delivered.strip() != diff.strip():
        print("note: the worktree diff differs from the delivered patch; re-applying the delivered patch")
        sh("git -C %s checkout -- src" % wt)
        r = sh("git -C %s apply %s" % (wt, os.path.join(out, "patch.diff")))
        assert r.returncode == 0, "delivered patch does not apply: " + r.stderr
        diff = sh("git -C %s diff -- src" % wt).stdout
    assert diff.strip(), "no source change in the worktree"
    demo = "demo_%s" % pid
    assert os.path.exists(os.path.join(wt, "tests", demo + ".rs")), "no demo in the worktree"
    suite = sh("cd %s && cargo test --offline --lib 2>&1 | tail -3" % wt).stdout
    ok_suite = "468 passed; 0 failed" in suite
    with_change = sh("cd %s && cargo test --offline --test %s 2>&1 | tail -5" % (wt, demo))
    fails_with = "test result: FAILED" in with_change.stdout or "error: test failed" in with_change.stdout
    open("/tmp/confirm_%s.diff" % pid, "w").write(diff)
    sh("git -C %s checkout -- src" % wt)
    without = sh("cd %s && cargo test --offline --test %s 2>&1 | tail -5" % (wt, demo))
    passes_without = "test result: ok" in without.stdout
    sh("git -C %s apply /tmp/confirm_%s.diff" % (wt, pid))
    print("suite with change: %s | demo with change fails: %s | demo without change passes: %s" % (ok_suite, fails_with, passes_without))
    if not (ok_suite and fails_with and passes_without):
        print(suite); print(with_change.stdout); print(without.stdout)
        print("NOT CONFIRMED; worktree kept")
        return 1
    dest = "/verif/seeded/%s-r%s" % (pid, rnd)
    os.makedirs(dest, exist_ok=True)
    open(os.path.join(dest, "patch.diff"), "w").write(diff)
    shutil.copy(os.path.join(wt, "tests", demo + ".rs"), os.path.join(dest, demo + ".rs"))
    if os.path.exists(os.path.join(out, "notes.md")):
        shutil.copy(os.path.join(out, "notes.md"), os.path.join(dest, "notes.md"))
    meta = {
        "breaks": [pid],
        "round": int(rnd),
        "written_by": "independent sub-agent given only the property text (plus hints which files to avoid) and a scratch worktree",
        "base_commit": head,
        "needs_to_manifest": needs,
        "confirmed": {
            "suite_with_change": "cargo test --offline --lib: 468 passed; 0 failed",
            "demo_with_change": "fails",
            "demo_without_change": "passes",
            "where": "scratch worktree %s (removed afterwards)" % wt,
        },
        "detected_by": [],
    }
    json.dump(meta, open(os.path.join(dest, "meta.json"), "w"), indent=1)
    sh("git -C /repo worktree remove --force %s" % wt)
    shutil.rmtree(out, ignore_errors=True)
    print("filed as", dest)
    return 0

sys.exit(main())
