mod common;
mod fswalk;
mod model;
mod props_algebra;
mod props_capture;
mod props_fs;
mod props_lang;
mod props_links;
mod props_partition;
mod props_query;
mod props_rules;
mod props_stack;
mod props_total;
mod space;

use common::Tier;

fn usage() -> ! {
    eprintln!("usage: waxmc <C01..C20> [--tier quick|thorough] [--replay FILE]");
    std::process::exit(2);
}

fn replay(prop: &str, file: &str) -> i32 {
    let text = std::fs::read_to_string(file).unwrap_or_else(|e| common::machinery_failure(&format!("{}: {}", file, e)));
    let case: serde_json::Value =
        serde_json::from_str(&text).unwrap_or_else(|e| common::machinery_failure(&format!("{}: {}", file, e)));
    println!("replaying {} case from {}", prop, file);
    if let Some(m) = case["message"].as_str() {
        println!("recorded: {}", m);
    }
    let kind = case["kind"].as_str().unwrap_or("").to_string();
    let run = || -> bool {
        match kind.as_str() {
            "exhaustive" => props_query::replay_exhaustive(&case),
            "family" => props_algebra::replay_family(&case),
            "lang" => props_lang::replay_lang(&case),
            "lang_any" => props_lang::replay_lang_any(&case),
            "rules" => props_rules::replay_rules(&case),
            "captures" => props_capture::replay_captures(&case),
            "routes" => props_capture::replay_routes(&case),
            "long-captures" => props_capture::replay_long_captures(&case),
            "total" => props_total::replay_total(&case),
            "combinator" => props_total::replay_combinator(&case),
            "combinator-law" => props_total::replay_combinator_law(&case),
            "spans" => props_total::replay_spans(&case),
            "walk" => props_fs::replay_walk(&case, prop),
            "anchor" => props_fs::replay_anchor(&case),
            "rootedfeed" => props_stack::replay_rootedfeed(&case),
            "depthwalk" => props_links::replay_depthwalk(&case),
            "prune" => props_fs::replay_prune(&case),
            "bytes" => {
                println!("re-run `./check C14`: the non-UTF-8 phase is a fixed world");
                false
            },
            "faultwalk" => props_links::replay_faultwalk(&case),
            "stack" => props_stack::replay_stack(&case, prop),
            "partition-programs" => props_stack::replay_partition_programs(&case),
            "partition" => props_partition::replay_partition(&case),
            "escape" => props_partition::replay_escape(&case),
            "depth" => props_query::replay_depth(&case),
            "text-other" | "text-self" | "text-cased" => props_query::replay_text(&case),
            "root" | "root-sometimes" | "semantic" => props_query::replay_root(&case),
            other => common::machinery_failure(&format!("unknown replay kind {:?}", other)),
        }
    };
    let first = common::guard(run);
    let second = common::guard(run);
    match (first, second) {
        (Ok(a), Ok(b)) if a == b => {
            if a {
                println!("VIOLATION property={} replay={}", prop, file);
                1
            }
            else {
                println!("not reproduced: the property holds on this case");
                0
            }
        },
        (Err(a), Err(_)) => {
            println!("panic while replaying: {}", a);
            println!("VIOLATION property={} replay={}", prop, file);
            1
        },
        _ => common::machinery_failure("replay is not deterministic"),
    }
}

fn main() {
    let args: Vec<String> = std::env::args().collect();
    if args.len() < 2 {
        usage();
    }
    let prop = args[1].clone();
    if prop == "families" {
        use refmodel::gen;
        println!("flag {} cased {} adjacent {} / {} tail {} / {} position(1,false) {} position(2,false) {}", gen::flag_family().len(), gen::cased_family().len(), gen::adjacent_family(false).len(), gen::adjacent_family(true).len(), gen::tail_family(false).len(), gen::tail_family(true).len(), gen::position_family(1, false).len(), gen::position_family(2, false).len());
        return;
    }
    if prop == "alphabet" {
        for e in &args[2..] {
            if let Ok(g) = wax::Glob::new(e) {
                println!("`{}`: {:?}", e, refmodel::automata::alphabet(&[g.verif_program_text()], &[]));
            }
        }
        return;
    }
    if prop == "query" {
        use wax::Program;
        for e in &args[2..] {
            match wax::Glob::new(e) {
                Ok(g) => {
                    println!("`{}`: regex={} depth={:?} text={:?} root={:?} exh={:?} caps={:?} sem={} comps={:?}", e, g.verif_program_text(), g.depth(), g.text(), g.has_root(), g.is_exhaustive(), g.captures().map(|c| (c.index(), c.span())).collect::<Vec<_>>(), g.has_semantic_literals(), g.verif_walk_component_texts());
                    let (p, post) = g.partition();
                    println!("   partition: prefix={:?} postfix={:?}", p, post.map(|g| g.to_string()));
                },
                Err(err) => println!("`{}`: error {} {:?}", e, err, err.locations().map(|l| (l.span(), l.to_string())).collect::<Vec<_>>()),
            }
        }
        return;
    }
    let mut tier = match std::env::var("VERIF_TIER").as_deref() {
        Ok("thorough") => Tier::Thorough,
        _ => Tier::Quick,
    };
    let mut replay_file: Option<String> = None;
    let mut i = 2;
    while i < args.len() {
        match args[i].as_str() {
            "--tier" => {
                i += 1;
                tier = match args.get(i).map(|s| s.as_str()) {
                    Some("quick") => Tier::Quick,
                    Some("thorough") => Tier::Thorough,
                    _ => usage(),
                };
            },
            "--replay" => {
                i += 1;
                replay_file = Some(args.get(i).cloned().unwrap_or_else(|| usage()));
            },
            _ => usage(),
        }
        i += 1;
    }
    common::silence_panics();
    // watchdog: a run that exceeds its wall budget is a machinery failure, never a verdict
    {
        let limit = std::env::var("WAXMC_WALL_LIMIT_S").ok().and_then(|s| s.parse::<u64>().ok()).unwrap_or(match tier {
            Tier::Quick => 1200,
            Tier::Thorough => 3 * 3600,
        });
        std::thread::spawn(move || {
            std::thread::sleep(std::time::Duration::from_secs(limit));
            eprintln!("MACHINERY-FAILURE: wall limit of {} s exceeded", limit);
            let _ = std::fs::remove_dir_all(format!("/dev/shm/waxmc-{}", std::process::id()));
            std::process::exit(2);
        });
    }
    if let Some(f) = replay_file {
        std::process::exit(replay(&prop, &f));
    }
    let code = match prop.as_str() {
        "C01" => props_lang::c01(tier),
        "C02" => props_fs::c02_c14(tier, "C02"),
        "C14" => props_fs::c02_c14(tier, "C14"),
        "C03" => props_stack::c03(tier),
        "C15" => props_links::c15(tier),
        "C20" => props_links::c20(tier),
        "C20-worker" => props_links::c20_worker(tier),
        "C13" => props_stack::c13_c16(tier, "C13"),
        "C16" => props_stack::c13_c16(tier, "C16"),
        "C04" => props_capture::c04(tier),
        "C19" => props_capture::c19(tier),
        "C05" => props_total::c05(tier),
        "C05-case" => props_total::c05_case_worker(),
        "C17" => props_total::c17(tier),
        "C06" => props_rules::c06(tier),
        "C07" => props_algebra::c07(tier),
        "C08" => props_partition::c08(tier),
        "C18" => props_partition::c18(tier),
        "C09" => props_query::c09(tier),
        "C10" => props_query::c10(tier),
        "C11" => props_query::c11(tier),
        "C12" => props_query::c12(tier),
        _ => {
            eprintln!("unknown property {}", prop);
            2
        },
    };
    std::process::exit(code);
}
