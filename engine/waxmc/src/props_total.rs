//! C05 (building and querying is total) and C17 (spans index the expression safely).

use rayon::prelude::*;
use refmodel::syntax::{self, Kind, Node, Seq};
use serde_json::{json, Value};
use std::io::{BufRead, BufReader, Write};
use std::process::{Command, Stdio};
use wax::{Glob, Program};

use crate::common::{guard, Alarm, Report, Tier};
use crate::model::{bump, Counters};
use crate::space::{self, Expr, SpaceOpts};

pub const S1_ALPHABET: [char; 22] = [
    'a', 'A', '1', '.', '金', '/', '?', '*', '$', ':', '<', '>', '(', ')', '[', ']', '{', '}', ',', '\\', '-', '!',
];

const FIXED_PATHS: [&str; 6] = ["", "a", "/", "a/b", "A/.a/金", "a\n/b/"];

/// Every string of length <= l over the alphabet, in length-lexicographic order, by index.
fn nth_string(alphabet: &[char], mut idx: u64) -> String {
    // lengths 0.. : count(len) = k^len
    let k = alphabet.len() as u64;
    let mut len = 0u32;
    let mut block = 1u64;
    while idx >= block {
        idx -= block;
        len += 1;
        block *= k;
    }
    let mut chars = vec![' '; len as usize];
    for i in (0..len as usize).rev() {
        chars[i] = alphabet[(idx % k) as usize];
        idx /= k;
    }
    chars.into_iter().collect()
}

fn par_chunks(from: u64, to: u64, size: u64) -> Vec<std::ops::Range<u64>> {
    let mut v = vec![];
    let mut a = from;
    while a < to {
        let b = (a + size).min(to);
        v.push(a..b);
        a = b;
    }
    v
}

fn count_strings(k: u64, l: u32) -> u64 {
    (0..=l).map(|i| k.pow(i)).sum()
}

fn error_kind_ok(text: &str) -> bool {
    text.starts_with("failed to parse glob expression")
        || text.starts_with("malformed glob expression")
        || text == OVERSIZED
}

const OVERSIZED: &str = "failed to compile glob: oversized program";

/// A conservative "this program is certainly not oversized": the product of all the decimal
/// numbers of the text (an upper bound of how often any token can be unrolled by counted
/// repetitions) times the length of the text stays below 2 000 encoded tokens and the nesting stays
/// below 20 levels. The regex back end's limits are 10 MB of compiled program, a nest limit of
/// 250 groups and counts up to 2^32-1, orders of magnitude above this. A compile error for such an
/// expression contradicts "a compile error is reported only for an oversized program".
pub fn certainly_not_oversized(text: &str) -> bool {
    let mut product = 1u128;
    let mut cur: Option<u128> = None;
    let mut close = |cur: &mut Option<u128>| {
        if let Some(n) = cur.take() {
            product = product.saturating_mul(n.max(1));
        }
    };
    for ch in text.chars() {
        if let Some(d) = ch.to_digit(10) {
            cur = Some(cur.unwrap_or(0).saturating_mul(10).saturating_add(d as u128));
        }
        else {
            close(&mut cur);
        }
    }
    close(&mut cur);
    let len = text.chars().count() as u128;
    product.saturating_mul(len.max(1)) <= 2_000 && nesting_depth(text) < 20
}

fn spurious_compile_error(text: &str, err: &str) -> bool {
    err == OVERSIZED && certainly_not_oversized(text)
}

/// Every public operation on a built glob; returns the name of the first one that panics.
pub fn all_operations(g: &Glob<'_>, text: &str) -> Result<(), String> {
    let step = |name: &str, f: &mut dyn FnMut()| -> Result<(), String> {
        guard(|| f()).map_err(|p| format!("{}: {}", name, p))
    };
    step("depth", &mut || {
        let _ = g.depth();
    })?;
    step("text", &mut || {
        let _ = g.text();
    })?;
    step("has_root", &mut || {
        let _ = g.has_root();
    })?;
    step("is_exhaustive", &mut || {
        let _ = g.is_exhaustive();
    })?;
    step("captures", &mut || {
        let _ = g.captures().count();
    })?;
    step("has_semantic_literals", &mut || {
        let _ = g.has_semantic_literals();
    })?;
    step("is_empty", &mut || {
        let _ = g.is_empty();
    })?;
    step("to_string", &mut || {
        let _ = g.to_string();
    })?;
    step("partition", &mut || {
        let (_, post) = g.clone().partition();
        if let Some(p) = post {
            let _ = p.depth();
            let _ = p.text();
            let _ = p.has_root();
            let _ = p.is_exhaustive();
            let _ = p.captures().count();
            let _ = p.to_string();
            let _ = p.is_match("a");
            let _ = p.partition();
        }
        let _ = g.clone().partition_or_empty();
        let _ = g.clone().partition_or_tree();
    })?;
    step("into_owned", &mut || {
        let o = g.clone().into_owned();
        let _ = o.is_match("a");
    })?;
    step("any([glob])", &mut || {
        if let Ok(a) = wax::any([g.clone()]) {
            let _ = a.depth();
            let _ = a.text();
            let _ = a.has_root();
            let _ = a.is_exhaustive();
            let _ = a.is_match("a");
        }
    })?;
    step("any([text])", &mut || {
        let _ = wax::any([text]);
    })?;
    step("walk construction", &mut || {
        let mut w = g.walk("/nonexistent-base/x");
        let _ = w.next();
    })?;
    step("not construction", &mut || {
        use wax::walk::{FileIterator, PathExt};
        let _ = std::path::Path::new("/nonexistent-base/x").walk().not(g.clone());
    })?;
    for p in FIXED_PATHS {
        step("is_match", &mut || {
            let _ = g.is_match(p);
        })?;
        step("matched", &mut || {
            let c = wax::CandidatePath::from(p);
            if let Some(m) = g.matched(&c) {
                let _ = m.complete();
                for i in 0..4 {
                    let _ = m.get(i);
                }
                let o = m.to_owned();
                let _ = o.get(1);
                let _ = m.into_owned().get(0);
            }
        })?;
    }
    Ok(())
}

/// Result of running one expression: "OK", "ERR <display>", "PANIC <where>".
/// Queries that do not recompile anything.
pub fn light_operations(g: &Glob<'_>) -> Result<(), String> {
    guard(|| {
        let _ = g.depth();
        let _ = g.text();
        let _ = g.has_root();
        let _ = g.is_exhaustive();
        let _ = g.captures().count();
        let _ = g.has_semantic_literals();
        let _ = g.is_empty();
        for p in FIXED_PATHS {
            let _ = g.is_match(p);
        }
    })
    .map_err(|p| format!("query: {}", p))
}

pub fn run_light(text: &str) -> String {
    match guard(|| Glob::new(text).map_err(|e| e.to_string())) {
        Err(p) => format!("PANIC Glob::new: {}", p),
        Ok(Err(e)) => format!("ERR {}", e),
        Ok(Ok(g)) => match light_operations(&g) {
            Ok(()) => "OK".to_string(),
            Err(p) => format!("PANIC {}", p),
        },
    }
}

pub fn run_one(text: &str, queries: bool) -> String {
    match guard(|| Glob::new(text).map(|g| g.into_owned()).map_err(|e| e.to_string())) {
        Err(p) => format!("PANIC Glob::new: {}", p),
        Ok(Err(e)) => format!("ERR {}", e),
        Ok(Ok(g)) => {
            if queries {
                match all_operations(&g, text) {
                    Ok(()) => "OK".to_string(),
                    Err(p) => format!("PANIC {}", p),
                }
            }
            else {
                "OK".to_string()
            }
        },
    }
}

// ---------------------------------------------------------------------------------------------
// isolated families (S2 bounds, S3 depth): worker subprocess
// ---------------------------------------------------------------------------------------------

fn expand(spec: &Value) -> String {
    if let Some(t) = spec["text"].as_str() {
        return t.to_string();
    }
    let depth = spec["depth"].as_u64().unwrap_or(1) as usize;
    let core = spec["core"].as_str().unwrap_or("a");
    match spec["gen"].as_str().unwrap_or("") {
        "nest" => {
            let open = spec["open"].as_str().unwrap_or("{");
            let close = spec["close"].as_str().unwrap_or("}");
            format!("{}{}{}", open.repeat(depth), core, close.repeat(depth))
        },
        "mixed" => {
            let mut s = String::new();
            for i in 0..depth {
                s.push(if i % 2 == 0 { '{' } else { '<' });
            }
            s.push_str(core);
            for i in (0..depth).rev() {
                s.push_str(if i % 2 == 0 { "}" } else { ":1,2>" });
            }
            s
        },
        "width" => format!("{{{}}}", vec![core; depth].join(",")),
        "flags" => format!("{}{}", "(?i)".repeat(depth), core),
        "literal" => core.repeat(depth),
        "seq" => vec![core; depth].join("/"),
        "classes" => "[a]".repeat(depth),
        "reps" => "<a:1,2>".repeat(depth),
        _ => String::new(),
    }
}

pub fn describe_spec(spec: &Value) -> String {
    if let Some(t) = spec["text"].as_str() {
        return format!("`{}`", t);
    }
    format!("{}", spec)
}

/// Worker: reads one JSON spec per line from stdin, answers one line per spec.
pub fn c05_case_worker() -> i32 {
    let stdin = std::io::stdin();
    let stdout = std::io::stdout();
    for line in stdin.lock().lines() {
        let Ok(line) = line else { break };
        let Ok(spec) = serde_json::from_str::<Value>(&line) else {
            let mut o = stdout.lock();
            let _ = writeln!(o, "BAD");
            let _ = o.flush();
            continue;
        };
        let text = expand(&spec);
        // run on a thread with a generous stack so that only truly unbounded recursion dies
        let handle = std::thread::Builder::new().stack_size(64 << 20).spawn(move || run_one(&text, true));
        let res = match handle {
            Ok(h) => h.join().unwrap_or_else(|_| "PANIC thread".to_string()),
            Err(_) => "PANIC cannot spawn".to_string(),
        };
        let mut o = stdout.lock();
        let _ = writeln!(o, "{}", res.replace('\n', " "));
        let _ = o.flush();
    }
    0
}

struct Worker {
    child: std::process::Child,
    stdin: std::process::ChildStdin,
    stdout: BufReader<std::process::ChildStdout>,
}

fn spawn_worker() -> Worker {
    use std::os::unix::process::CommandExt;
    let exe = std::env::current_exe().expect("current exe");
    let mut cmd = Command::new(exe);
    cmd.arg("C05-case").stdin(Stdio::piped()).stdout(Stdio::piped()).stderr(Stdio::null());
    unsafe {
        cmd.pre_exec(|| {
            // address space cap: allocation failure aborts the worker, not the engine
            let lim = libc::rlimit { rlim_cur: 6 << 30, rlim_max: 6 << 30 };
            libc::setrlimit(libc::RLIMIT_AS, &lim);
            let secs: u64 = std::env::var("WAXMC_CASE_CPU_S").ok().and_then(|s| s.parse().ok()).unwrap_or(30);
            let cpu = libc::rlimit { rlim_cur: secs, rlim_max: secs + 1 };
            libc::setrlimit(libc::RLIMIT_CPU, &cpu);
            Ok(())
        });
    }
    let mut child = cmd.spawn().expect("spawn worker");
    let stdin = child.stdin.take().unwrap();
    let stdout = BufReader::new(child.stdout.take().unwrap());
    Worker { child, stdin, stdout }
}

/// Runs the specs in isolated workers; returns one result per spec ("ABORT <status>" when the
/// worker died on it).
pub fn run_isolated(specs: &[Value]) -> Vec<String> {
    let mut out = Vec::with_capacity(specs.len());
    let mut w = spawn_worker();
    for spec in specs {
        let line = format!("{}\n", spec);
        let sent = w.stdin.write_all(line.as_bytes()).and_then(|_| w.stdin.flush());
        let mut answer = String::new();
        let got = if sent.is_ok() { w.stdout.read_line(&mut answer).unwrap_or(0) } else { 0 };
        if got == 0 {
            let status = w.child.wait().map(|s| format!("{}", s)).unwrap_or_else(|_| "unknown".into());
            out.push(format!("ABORT {}", status));
            w = spawn_worker();
        }
        else {
            out.push(answer.trim_end().to_string());
        }
    }
    drop(w.stdin);
    let _ = w.child.wait();
    out
}

fn bound_values() -> Vec<&'static str> {
    vec![
        "0", "1", "2", "3", "65535", "65536", "2147483647", "2147483648", "2147483649", "4294967295", "4294967296",
        "4294967297", "9007199254740992", "9223372036854775807", "9223372036854775808", "9223372036854775809",
        "18446744073709551615", "18446744073709551616", "1000000000000000000000000000000", "00", "007",
    ]
}

fn s2_specs(tier: Tier) -> Vec<Value> {
    let bodies: Vec<&str> = tier.pick(vec!["a", "a/", "a*", "[a]"], vec!["a", "a/", "a*", "[a]", "?", "**/a", "a/**", "{a,b/}"]);
    let vals: Vec<&str> = tier.pick(
        vec!["0", "1", "2", "65535", "65536", "4294967295", "4294967296", "9223372036854775807", "9223372036854775808", "18446744073709551615", "18446744073709551616", "007"],
        bound_values(),
    );
    let mut reps: Vec<String> = vec![];
    for body in bodies {
        for lo in &vals {
            reps.push(format!("<{}:{}>", body, lo));
            reps.push(format!("<{}:{},>", body, lo));
            for hi in &vals {
                reps.push(format!("<{}:{},{}>", body, lo, hi));
            }
        }
    }
    let mut specs: Vec<Value> = vec![];
    for r in &reps {
        specs.push(json!({"text": r}));
        specs.push(json!({"text": format!("x/{}", r)}));
        specs.push(json!({"text": format!("{{{},b}}", r)}));
        if tier == Tier::Thorough {
            specs.push(json!({"text": format!("{}/x", r)}));
            specs.push(json!({"text": format!("<{}:2>", r)}));
        }
    }
    // ordered pairs of repetitions over a small body set (range arithmetic across tokens)
    let small: Vec<String> = {
        let bs = ["a", "a/"];
        let vs = tier.pick(
            vec!["0", "1", "2", "65536", "4294967296", "18446744073709551615"],
            vec!["0", "1", "2", "3", "65535", "65536", "4294967295", "4294967296", "9223372036854775808", "18446744073709551615"],
        );
        let mut v = vec![];
        for b in bs {
            v.push(format!("<{}>", b));
            v.push(format!("<{}:>", b));
            for lo in &vs {
                v.push(format!("<{}:{}>", b, lo));
                v.push(format!("<{}:{},>", b, lo));
                for hi in &vs {
                    v.push(format!("<{}:{},{}>", b, lo, hi));
                }
            }
        }
        v
    };
    for a in &small {
        for b in &small {
            specs.push(json!({"text": format!("{}{}", a, b)}));
        }
    }
    // alternations of sums (union of ranges across branches)
    let tiny: Vec<&String> = small.iter().step_by(tier.pick(5, 2)).collect();
    for a in &tiny {
        for b in &tiny {
            specs.push(json!({"text": format!("{{{}{},{}}}", a, b, b)}));
            specs.push(json!({"text": format!("{{{},{}}}", a, b)}));
        }
    }
    specs
}

/// S4, the class family: every class of one or two items over a small character set, every
/// range including reversed and degenerate ones, negated or not, in several contexts.
fn s4_specs(tier: Tier) -> Vec<Value> {
    let chars = ["a", "A", "1", ".", "金", "/", "!", "^", "&", "~", "\\]", "\\[", "\\-", "*", "z"];
    let mut items: Vec<String> = chars.iter().map(|c| c.to_string()).collect();
    for x in chars {
        for y in chars {
            items.push(format!("{}-{}", x, y));
        }
    }
    let mut classes: Vec<String> = vec![];
    for it in &items {
        classes.push(format!("[{}]", it));
        classes.push(format!("[!{}]", it));
    }
    // two items
    let few: Vec<&String> = items.iter().step_by(tier.pick(7, 3)).collect();
    for a in &few {
        for b in &few {
            classes.push(format!("[{}{}]", a, b));
            classes.push(format!("[!{}{}]", a, b));
        }
    }
    let mut specs = vec![];
    for c in &classes {
        specs.push(json!({"text": c}));
        specs.push(json!({"text": format!("a{}b", c)}));
        if tier == Tier::Thorough {
            specs.push(json!({"text": format!("<{}:1,2>", c)}));
            specs.push(json!({"text": format!("{{{},a}}", c)}));
            specs.push(json!({"text": format!("(?i){}", c)}));
            specs.push(json!({"text": format!("**/{}*", c)}));
        }
    }
    specs
}

fn s3_specs(tier: Tier) -> Vec<Value> {
    let mut depths: Vec<u64> = (1..=16).collect();
    depths.extend([32, 64, 100, 120, 127, 128, 129, 130, 200, 256, 512, 1024]);
    if tier == Tier::Thorough {
        depths.extend([4096, 10_000, 100_000]);
    }
    let mut specs = vec![];
    for d in depths {
        specs.push(json!({"gen": "nest", "open": "{", "close": "}", "depth": d, "core": "a"}));
        specs.push(json!({"gen": "nest", "open": "<", "close": ">", "depth": d, "core": "a"}));
        specs.push(json!({"gen": "nest", "open": "<", "close": ":1,2>", "depth": d, "core": "a"}));
        specs.push(json!({"gen": "nest", "open": "{a,", "close": "}", "depth": d, "core": "b"}));
        specs.push(json!({"gen": "nest", "open": "x{", "close": "}y", "depth": d, "core": "a"}));
        specs.push(json!({"gen": "mixed", "depth": d, "core": "a"}));
        specs.push(json!({"gen": "width", "depth": d, "core": "a"}));
        specs.push(json!({"gen": "flags", "depth": d, "core": "a"}));
        specs.push(json!({"gen": "literal", "depth": d, "core": "ab"}));
        specs.push(json!({"gen": "seq", "depth": d, "core": "a"}));
        specs.push(json!({"gen": "seq", "depth": d, "core": "*"}));
        specs.push(json!({"gen": "classes", "depth": d}));
        specs.push(json!({"gen": "reps", "depth": d}));
        // an unterminated nest (parse error path)
        specs.push(json!({"text": "{".repeat(d.min(20_000) as usize)}));
        specs.push(json!({"text": "[".repeat(d.min(20_000) as usize)}));
    }
    specs
}

fn max_number(text: &str) -> u128 {
    let mut best = 0u128;
    let mut cur: Option<u128> = None;
    for ch in text.chars() {
        if let Some(d) = ch.to_digit(10) {
            cur = Some(cur.unwrap_or(0).saturating_mul(10).saturating_add(d as u128));
        }
        else if let Some(n) = cur.take() {
            best = best.max(n);
        }
    }
    best.max(cur.unwrap_or(0))
}

fn nesting_depth(text: &str) -> usize {
    let mut d = 0usize;
    let mut best = 0;
    for ch in text.chars() {
        match ch {
            '{' | '<' => {
                d += 1;
                best = best.max(d);
            },
            '}' | '>' => d = d.saturating_sub(1),
            _ => {},
        }
    }
    best
}

/// Recorded findings of the closed families: identified by the exact panic site together with
/// a structural predicate on the expression, or by the exact input.
fn classify_isolated(spec: &Value, result: &str, known: &[String]) -> Option<String> {
    let text = expand(spec);
    if result == "PANIC Glob::new: failed to compile glob" {
        // the regex back end cannot express the program and the error is not `CompiledTooBig`
        if max_number(&text) > u32::MAX as u128 {
            return Some("regex-repetition-count-limit".to_string());
        }
        if nesting_depth(&text) >= 100 {
            return Some("regex-nest-limit".to_string());
        }
    }
    if (result.starts_with("ABORT signal: 11") || result.starts_with("ABORT signal: 6")) && nesting_depth(&text) >= 1000 {
        return Some("unbounded-recursion-on-deep-nesting".to_string());
    }
    if known.iter().any(|k| *k == format!("{}", spec)) {
        return Some("closed-family-exact-input".to_string());
    }
    None
}

fn load_exact_inputs() -> Vec<String> {
    let path = crate::common::verif_dir().join("known_findings.json");
    let Ok(text) = std::fs::read_to_string(path) else { return vec![] };
    let Ok(v) = serde_json::from_str::<Value>(&text) else { return vec![] };
    let mut out = vec![];
    for f in v["findings"].as_array().cloned().unwrap_or_default() {
        if f["class"].as_str() == Some("closed-family-exact-input") && f["status"].as_str() == Some("open") {
            for i in f["inputs"].as_array().cloned().unwrap_or_default() {
                out.push(format!("{}", i));
            }
        }
    }
    out
}

pub fn c05(tier: Tier) -> i32 {
    let rep = Report::new("C05", tier, "exploration");
    let known = load_exact_inputs();
    // S1
    let l = tier.pick(4u32, 5u32);
    let k = S1_ALPHABET.len() as u64;
    let total = count_strings(k, l);
    rep.add("s1_strings", total);
    let outcomes = std::sync::Mutex::new(std::collections::BTreeSet::<String>::new());
    par_chunks(0, total, 4096).into_par_iter().for_each(|chunk| {
        let mut c = Counters::new();
        let mut local = std::collections::BTreeSet::new();
        for idx in chunk {
            let s = nth_string(&S1_ALPHABET, idx);
            let r = run_one(&s, true);
            if r == "OK" {
                bump(&mut c, "s1_built", 1);
                local.insert("OK".to_string());
            }
            else if let Some(e) = r.strip_prefix("ERR ") {
                bump(&mut c, "s1_rejected", 1);
                local.insert(e.chars().take(50).collect());
                if spurious_compile_error(&s, e) {
                    rep.alarm(Alarm {
                        class: None,
                        key: format!("compile {:?}", s),
                        msg: format!("Glob::new({:?}) reports a compile error, but the program is not oversized: {}", s, e),
                        case: json!({"kind": "total", "spec": {"text": s}}),
                    });
                }
                if !error_kind_ok(e) {
                    rep.alarm(Alarm {
                        class: None,
                        key: format!("kind {:?}", s),
                        msg: format!("Glob::new({:?}) fails with an error that is neither parse, rule nor oversized program: {}", s, e),
                        case: json!({"kind": "total", "spec": {"text": s}}),
                    });
                }
            }
            else {
                rep.alarm(Alarm {
                    class: classify_isolated(&json!({"text": s}), &r, &known),
                    key: format!("panic {:?}", s),
                    msg: format!("expression {:?}: {}", s, r),
                    case: json!({"kind": "total", "spec": {"text": s}}),
                });
            }
        }
        outcomes.lock().unwrap().extend(local);
        rep.merge(&c);
    });
    // thorough: length 6 over a reduced alphabet (the delimiters and one of each leaf kind)
    if tier == Tier::Thorough {
        let alpha: Vec<char> = vec!['a', '/', '*', ':', '<', '>', '[', ']', '{', '}', ',', '1', '(', '?', 'i', ')'];
        let total6 = (alpha.len() as u64).pow(6) + (alpha.len() as u64).pow(7) / 16;
        let base = count_strings(alpha.len() as u64, 5);
        rep.add("s1b_strings_len6_reduced", total6);
        par_chunks(base, base + (alpha.len() as u64).pow(6), 8192).into_par_iter().for_each(|chunk| {
            let mut c = Counters::new();
            for idx in chunk {
                let s = nth_string(&alpha, idx);
                let r = run_one(&s, true);
                if r.starts_with("PANIC") {
                    rep.alarm(Alarm {
                        class: None,
                        key: format!("panic {:?}", s),
                        msg: format!("expression {:?}: {}", s, r),
                        case: json!({"kind": "total", "spec": {"text": s}}),
                    });
                }
                else if r == "OK" {
                    bump(&mut c, "s1b_built", 1);
                }
            }
            rep.merge(&c);
        });
    }
    // program space: every built expression, every operation
    let mut opts = SpaceOpts::standard(tier);
    opts.subst_pairs = 0;
    let full_ops_size = tier.pick(3usize, 5usize);
    let n = space::for_each_expr(&opts, &|e: &Expr| {
        let r = if syntax::size(&e.ast) <= full_ops_size { run_one(&e.text, true) } else { run_light(&e.text) };
        if r.starts_with("PANIC") {
            rep.alarm(Alarm {
                class: classify_isolated(&json!({"text": e.text}), &r, &known),
                key: format!("panic {:?}", e.text),
                msg: format!("expression {:?}: {}", e.text, r),
                case: json!({"kind": "total", "spec": {"text": e.text}}),
            });
        }
        else if r.strip_prefix("ERR ").map_or(false, |err| spurious_compile_error(&e.text, err)) {
            rep.alarm(Alarm {
                class: None,
                key: format!("compile {:?}", e.text),
                msg: format!("Glob::new({:?}) reports a compile error, but the program is not oversized", e.text),
                case: json!({"kind": "total", "spec": {"text": e.text}}),
            });
        }
    });
    rep.add("program_space_expressions", n);
    // S2 / S3: isolated
    let mut specs = s2_specs(tier);
    let n2 = specs.len();
    specs.extend(s3_specs(tier));
    let n3 = specs.len();
    specs.extend(s4_specs(tier));
    rep.add("s2_bound_family", n2 as u64);
    rep.add("s3_depth_family", (n3 - n2) as u64);
    rep.add("s4_class_family", (specs.len() - n3) as u64);
    let chunks: Vec<&[Value]> = specs.chunks((specs.len() / 32).max(1)).collect();
    let results: Vec<Vec<String>> = chunks.par_iter().map(|ch| run_isolated(ch)).collect();
    let mut i = 0;
    for (ch, rs) in chunks.iter().zip(results.iter()) {
        for (spec, r) in ch.iter().zip(rs.iter()) {
            i += 1;
            let bad = if r == "OK" {
                rep.add("isolated_built", 1);
                None
            }
            else if let Some(e) = r.strip_prefix("ERR ") {
                rep.add("isolated_rejected", 1);
                if e == OVERSIZED {
                    rep.add("isolated_oversized_program", 1);
                }
                if spurious_compile_error(&expand(spec), e) {
                    Some(format!("compile error although the program is not oversized: {}", e))
                }
                else if error_kind_ok(e) { None } else { Some(format!("error of unexpected kind: {}", e)) }
            }
            else if r.starts_with("ABORT signal: 9") || r.starts_with("ABORT signal: 24") {
                // the CPU limit of the worker: the build terminates, but not within the budget
                rep.add("isolated_inconclusive_cpu_limit", 1);
                rep.note(format!("CPU limit hit (inconclusive, not a verdict): {}", describe_spec(spec)));
                None
            }
            else {
                Some(r.clone())
            };
            if let Some(what) = bad {
                outcomes.lock().unwrap().insert(what.chars().take(40).collect());
                rep.alarm(Alarm {
                    class: classify_isolated(spec, r, &known),
                    key: format!("isolated {}", spec),
                    msg: format!("expression {}: {}", describe_spec(spec), what),
                    case: json!({"kind": "total", "spec": spec}),
                });
            }
        }
    }
    let _ = i;
    // S6 the alignment family: a multi-byte character at every byte offset after / before a construct
    // that fails to parse, through Glob::new, FromStr and any([text])
    {
        let fam = alignment_family(tier);
        rep.add("s6_alignment_family", fam.len() as u64);
        fam.par_iter().for_each(|s| {
            let r = run_one(s, true);
            let via = guard(|| {
                let _ = <Glob<'static> as std::str::FromStr>::from_str(s);
                let _ = wax::any([s.as_str()]);
                let _ = wax::any(["a", s.as_str()]);
            });
            let bad = if !(r == "OK" || r.starts_with("ERR ")) { Some(r.clone()) } else if let Err(p) = via { Some(format!("PANIC FromStr / any: {}", p)) } else { None };
            if let Some(what) = bad {
                rep.alarm(Alarm {
                    class: None,
                    key: format!("alignment {:?}", s),
                    msg: format!("expression {:?}: {}", s, what),
                    case: json!({"kind": "total", "spec": {"text": s}}),
                });
            }
            else if let Some(e) = r.strip_prefix("ERR ") {
                if !error_kind_ok(e) || spurious_compile_error(s, e) {
                    rep.alarm(Alarm {
                        class: None,
                        key: format!("alignment kind {:?}", s),
                        msg: format!("Glob::new({:?}) fails with {}", s, e),
                        case: json!({"kind": "total", "spec": {"text": s}}),
                    });
                }
            }
        });
    }
    // S5 the combinator family: every combinator tree of nesting depth <= 3 and arity 0..2 over the
    // leaves {combinator of no patterns, expression text, compiled glob, owned glob}; construction,
    // every query, matching, and installation as a negation
    let s5 = combinator_family(&rep, tier);
    rep.add("s5_combinator_trees", s5);
    let evaluations = total + n + specs.len() as u64 + s5;
    let distinct = outcomes.lock().unwrap().len() as u64;
    rep.finish(
        json!({
            "evaluations": evaluations,
            "distinct_nontrivial": distinct,
            "rule": format!("S1 every string of length <= {} over the 22-symbol meta alphabet; every expression of the program space; S2 the bound family (21 bound spellings x 8 bodies x 5 contexts + ordered pairs); S3 the depth family (nesting / width / flag runs / literal lengths up to 10^4, 10^5 in the thorough tier) in isolated worker processes with address-space and CPU limits; S6 the alignment family (a multi-byte character at every byte offset 0..=70 after / before 19 constructs, through Glob::new, FromStr and any); S5 the combinator family (every combinator tree of depth <= 3 and arity 0..2 over no pattern / text / compiled / owned leaves: construction, queries, matching, not(), any of it); on every built glob every public operation and 6 paths; distinct_nontrivial = distinct outcome kinds (Ok, error messages, panic sites)", l),
            "samples": [{"string": nth_string(&S1_ALPHABET, total - 1)}, {"string": nth_string(&S1_ALPHABET, total / 2)}, specs[0].clone(), specs[specs.len() - 1].clone()],
            "exhaustive": true,
        }),
        vec!["a worker that dies (stack overflow, allocation failure) is a violation of totality for the case in flight, not a machinery failure".into()],
    )
}

#[derive(Clone, Debug)]
enum Comb {
    Text(&'static str),
    Compiled(&'static str),
    Owned(&'static str),
    Any(Vec<Comb>),
}

impl Comb {
    fn describe(&self) -> String {
        match self {
            Comb::Text(t) => format!("{:?}", t),
            Comb::Compiled(t) => format!("Glob({:?})", t),
            Comb::Owned(t) => format!("Glob({:?}).into_owned()", t),
            Comb::Any(v) => format!("any([{}])", v.iter().map(|c| c.describe()).collect::<Vec<_>>().join(", ")),
        }
    }
    fn to_json(&self) -> Value {
        match self {
            Comb::Text(t) => json!({"text": t}),
            Comb::Compiled(t) => json!({"compiled": t}),
            Comb::Owned(t) => json!({"owned": t}),
            Comb::Any(v) => json!({"any": v.iter().map(|c| c.to_json()).collect::<Vec<_>>()}),
        }
    }
    fn from_json(v: &Value) -> Comb {
        fn leak(s: &str) -> &'static str {
            Box::leak(s.to_string().into_boxed_str())
        }
        if let Some(t) = v["text"].as_str() {
            Comb::Text(leak(t))
        }
        else if let Some(t) = v["compiled"].as_str() {
            Comb::Compiled(leak(t))
        }
        else if let Some(t) = v["owned"].as_str() {
            Comb::Owned(leak(t))
        }
        else {
            Comb::Any(v["any"].as_array().map(|a| a.iter().map(Comb::from_json).collect()).unwrap_or_default())
        }
    }
    /// builds the combinator through the public API (children of one `any` must have one type, so
    /// leaves are given as one-pattern combinators when they stand beside nested combinators)
    fn build(&self) -> Result<wax::Any<'static>, String> {
        match self {
            Comb::Text(t) => wax::any([*t]).map_err(|e| e.to_string()),
            Comb::Compiled(t) => wax::any([Glob::new(t).map_err(|e| e.to_string())?]).map_err(|e| e.to_string()),
            Comb::Owned(t) => wax::any([Glob::new(t).map_err(|e| e.to_string())?.into_owned()]).map_err(|e| e.to_string()),
            Comb::Any(v) => {
                if v.iter().all(|c| matches!(c, Comb::Text(_))) {
                    let texts: Vec<&'static str> = v.iter().map(|c| if let Comb::Text(t) = c { *t } else { "" }).collect();
                    return wax::any(texts).map_err(|e| e.to_string());
                }
                let mut kids = vec![];
                for c in v {
                    kids.push(c.build()?);
                }
                wax::any(kids).map_err(|e| e.to_string())
            },
        }
    }
    fn has_leaf(&self) -> bool {
        match self {
            Comb::Any(v) => v.iter().any(|c| c.has_leaf()),
            _ => true,
        }
    }
    /// what the union of the leaves says (None when a leaf does not build)
    fn union_matches(&self, path: &str) -> Option<bool> {
        match self {
            Comb::Text(t) | Comb::Compiled(t) | Comb::Owned(t) => Glob::new(t).ok().map(|g| g.is_match(path)),
            Comb::Any(v) => {
                let mut any = false;
                for c in v {
                    any |= c.union_matches(path)?;
                }
                Some(any)
            },
        }
    }
}

fn run_comb(comb: &Comb) -> Result<(), String> {
    use wax::walk::{FileIterator, PathExt};
    let step = |name: &str, f: &mut dyn FnMut()| -> Result<(), String> { guard(|| f()).map_err(|p| format!("{}: {}", name, p)) };
    let mut built: Option<wax::Any<'static>> = None;
    step("any construction", &mut || {
        built = comb.build().ok();
    })?;
    let Some(a) = built else { return Ok(()) };
    step("queries", &mut || {
        let _ = a.depth();
        let _ = a.text();
        let _ = a.has_root();
        let _ = a.is_exhaustive();
    })?;
    for p in FIXED_PATHS {
        step("is_match", &mut || {
            let _ = a.is_match(p);
        })?;
        step("matched", &mut || {
            let c = wax::CandidatePath::from(p);
            if let Some(m) = a.matched(&c) {
                let _ = m.complete();
                let _ = m.get(1);
                let _ = m.into_owned().get(0);
            }
        })?;
    }
    step("not construction", &mut || {
        if let Ok(again) = comb.build() {
            let _ = std::path::Path::new("/nonexistent-base/x").walk().not(again);
        }
    })?;
    step("any of the combinator", &mut || {
        if let Ok(again) = comb.build() {
            let _ = wax::any([again]);
        }
    })?;
    Ok(())
}

fn combinator_family(rep: &Report, tier: Tier) -> u64 {
    let all = combinator_trees(tier);
    all.par_iter().for_each(|comb| {
        if let Err(what) = run_comb(comb) {
            rep.alarm(Alarm {
                class: None,
                key: format!("combinator {}", comb.describe()),
                msg: format!("combinator {}: PANIC {}", comb.describe(), what),
                case: json!({"kind": "combinator", "comb": comb.to_json()}),
            });
        }
    });
    all.len() as u64
}

/// The trees of the combinator family (shared by C05, C07 and C11).
fn combinator_trees(tier: Tier) -> Vec<Comb> {
    let texts: Vec<&'static str> = tier.pick(vec!["", "a", "a/**", "<a:0,1>"], vec!["", "a", "a/**", "<a:0,1>", "**/a", "/a", "{a,b}"]);
    let mut level0: Vec<Comb> = vec![];
    for t in &texts {
        level0.push(Comb::Text(t));
        level0.push(Comb::Compiled(t));
    }
    level0.push(Comb::Owned("a/**"));
    let next = |prev: &Vec<Comb>| -> Vec<Comb> {
        let mut out = vec![Comb::Any(vec![])];
        for x in prev {
            out.push(Comb::Any(vec![x.clone()]));
        }
        for x in prev {
            for y in prev {
                out.push(Comb::Any(vec![x.clone(), y.clone()]));
            }
        }
        out
    };
    let level1 = next(&level0);
    let thin: Vec<Comb> = level1.iter().filter(|c| match c {
        Comb::Any(v) => v.iter().all(|x| matches!(x, Comb::Text("") | Comb::Text("a") | Comb::Compiled("a/**") | Comb::Text("<a:0,1>"))),
        _ => true,
    }).cloned().collect();
    let level2 = next(&thin);
    let mut all = level1;
    all.extend(level2);
    all
}

/// C07 on the combinator family: a combinator matches exactly the union of its leaves (none, for a
/// combinator of no patterns), on every path of length <= 3 over {a, b, /}. C11 on the same family:
/// a combinator that reports invariant text matches that text and nothing else among those paths.
/// `which` selects the law ("C07" or "C11"); returns the number of trees judged.
pub fn combinator_laws(rep: &Report, tier: Tier, which: &str) -> u64 {
    let mut paths = vec![String::new()];
    let mut level = vec![String::new()];
    for _ in 0..3 {
        let mut next = vec![];
        for s in &level {
            for ch in ['a', 'b', '/'] {
                let mut t = s.clone();
                t.push(ch);
                next.push(t);
            }
        }
        paths.extend(next.iter().cloned());
        level = next;
    }
    let trees = combinator_trees(tier);
    trees.par_iter().for_each(|comb| {
        let Ok(Ok(a)) = guard(|| comb.build()) else { return };
        if which == "C07" {
            for p in &paths {
                let Some(union) = comb.union_matches(p) else { return };
                let real = a.is_match(p.as_str());
                if real != union {
                    rep.alarm(Alarm {
                        class: None,
                        key: format!("combinator union {}", comb.describe()),
                        msg: format!("{} is not the union of its patterns on path {:?}: combinator={} union={}", comb.describe(), p, real, union),
                        case: json!({"kind": "combinator-law", "law": "C07", "comb": comb.to_json(), "path": p}),
                    });
                    return;
                }
            }
        }
        else if let wax::query::TextVariance::Invariant(t) = a.text() {
            let t = t.to_string();
            for p in paths.iter().chain(std::iter::once(&t)) {
                let real = a.is_match(p.as_str());
                if real != (*p == t) {
                    rep.alarm(Alarm {
                        // recorded finding: a combinator without any pattern reports the text ""
                        // and matches nothing (identified by the tree having no leaf at all and
                        // the witness being the reported text itself)
                        class: if !comb.has_leaf() && *p == t && t.is_empty() { Some("patternless-combinator-invariant-text".into()) } else { None },
                        key: format!("combinator text {}", comb.describe()),
                        msg: format!("{} reports invariant text {:?} but is_match({:?}) = {}", comb.describe(), t, p, real),
                        case: json!({"kind": "combinator-law", "law": "C11", "comb": comb.to_json(), "path": p}),
                    });
                    return;
                }
            }
        }
    });
    trees.len() as u64
}

pub fn replay_combinator_law(case: &Value) -> bool {
    let comb = Comb::from_json(&case["comb"]);
    let path = case["path"].as_str().unwrap_or("");
    let Ok(a) = comb.build() else {
        println!("{} does not build", comb.describe());
        return false;
    };
    let real = a.is_match(path);
    println!("{}: is_match({:?}) = {}, union of the patterns = {:?}, text() = {:?}", comb.describe(), path, real, comb.union_matches(path), a.text());
    if case["law"].as_str() == Some("C07") {
        comb.union_matches(path).map_or(false, |u| u != real)
    }
    else {
        match a.text() {
            wax::query::TextVariance::Invariant(t) => real != (path == t.to_string()),
            _ => false,
        }
    }
}

pub fn replay_combinator(case: &Value) -> bool {
    let comb = Comb::from_json(&case["comb"]);
    let r = run_comb(&comb);
    println!("combinator {}: {:?}", comb.describe(), r);
    if let Ok(a) = comb.build() {
        for p in FIXED_PATHS {
            println!("  is_match({:?}) = {}, union of the leaves = {:?}", p, a.is_match(p), comb.union_matches(p));
        }
    }
    r.is_err()
}

pub fn replay_total(case: &Value) -> bool {
    let spec = &case["spec"];
    let rs = run_isolated(std::slice::from_ref(spec));
    println!("expression {}: {}", describe_spec(spec), rs[0]);
    let text = expand(spec);
    !(rs[0] == "OK" || rs[0].strip_prefix("ERR ").map_or(false, |e| error_kind_ok(e) && !spurious_compile_error(&text, e)))
}

// ---------------------------------------------------------------------------------------------
// C17
// ---------------------------------------------------------------------------------------------

fn span_ok(expr: &str, span: (usize, usize)) -> Result<(), String> {
    let (start, len) = span;
    let end = start.checked_add(len).ok_or_else(|| "span overflows".to_string())?;
    if end > expr.len() {
        return Err(format!("span ({}, {}) exceeds the expression length {}", start, len, expr.len()));
    }
    if !expr.is_char_boundary(start) || !expr.is_char_boundary(end) {
        return Err(format!("span ({}, {}) does not fall on character boundaries", start, len));
    }
    // slicing as the documentation does
    guard(|| {
        let _ = &expr[start..][..len];
    })
    .map_err(|p| format!("slicing by ({}, {}) panics: {}", start, len, p))
}

/// Spans of the capturing tokens of the top-level sequence: (own span, span extended to the left
/// over directly preceding flag groups).
fn capture_spans(ast: &Seq) -> Vec<((usize, usize), (usize, usize))> {
    let mut out = vec![];
    let mut flag_start: Option<usize> = None;
    for n in ast {
        if n.is_flag() {
            if flag_start.is_none() {
                flag_start = Some(n.span.0);
            }
            continue;
        }
        if n.is_capturing() {
            let own = n.span;
            let ext = match flag_start {
                Some(s) => (s, own.0 + own.1 - s),
                None => own,
            };
            out.push((own, ext));
        }
        flag_start = None;
    }
    out
}

pub fn check_capture_spans(rep: &Report, c: &mut Counters, origin: &str, text: &str, g: &Glob<'_>) {
    let Ok(ast) = syntax::parse(text) else {
        bump(c, "unparsed_by_reference", 1);
        return;
    };
    let want = capture_spans(&ast);
    let got: Vec<(usize, (usize, usize))> = g.captures().map(|t| (t.index(), t.span())).collect();
    bump(c, "capture_span_sets_checked", 1);
    let mut problems = vec![];
    if got.len() != want.len() {
        problems.push(format!("{} capturing tokens reported, the expression has {}", got.len(), want.len()));
    }
    for (i, (idx, span)) in got.iter().enumerate() {
        if *idx != i + 1 {
            problems.push(format!("capture {} has index {}", i + 1, idx));
        }
        if let Err(e) = span_ok(text, *span) {
            problems.push(e);
            continue;
        }
        if let Some((own, ext)) = want.get(i) {
            if span != own && span != ext {
                problems.push(format!(
                    "capture {} has span {:?} = {:?}, the sub-expression is {:?} = {:?}",
                    idx,
                    span,
                    &text[span.0..span.0 + span.1],
                    own,
                    &text[own.0..own.0 + own.1]
                ));
            }
        }
    }
    if !problems.is_empty() {
        rep.alarm(Alarm {
            class: None,
            key: format!("capture {} {}", origin, text),
            msg: format!("`{}` ({}): {}", text, origin, problems.join("; ")),
            case: json!({"kind": "spans", "expression": origin, "check": "captures"}),
        });
    }
}

fn check_glob_spans(rep: &Report, c: &mut Counters, text: &str) {
    match guard(|| Glob::new(text)) {
        Err(_) => bump(c, "skipped_panics", 1),
        Ok(Err(err)) => {
            bump(c, "failing", 1);
            let spans: Vec<(usize, usize)> = err.locations().map(|l| l.span()).collect();
            bump(c, "error_spans_checked", spans.len() as u64);
            for sp in spans {
                if let Err(e) = span_ok(text, sp) {
                    rep.alarm(Alarm {
                        class: None,
                        key: format!("error {:?}", text),
                        msg: format!("build error of {:?} ({}): {}", text, err, e),
                        case: json!({"kind": "spans", "expression": text, "check": "error"}),
                    });
                    break;
                }
            }
            // the same pattern failing inside a combinator reports the same locations (they
            // index the failing pattern)
            let direct: Vec<(usize, usize)> = err.locations().map(|l| l.span()).collect();
            if let Ok(Err(any_err)) = guard(|| wax::any(["a", text])) {
                let via_any: Vec<(usize, usize)> = any_err.locations().map(|l| l.span()).collect();
                bump(c, "error_spans_checked_through_any", via_any.len() as u64);
                if via_any != direct {
                    rep.alarm(Alarm {
                        class: None,
                        key: format!("anyspan {:?}", text),
                        msg: format!("build error of {:?}: spans {:?} directly but {:?} when the pattern fails inside any([\"a\", ..])", text, direct, via_any),
                        case: json!({"kind": "spans", "expression": text, "check": "error"}),
                    });
                }
            }
        },
        Ok(Ok(g)) => {
            bump(c, "built", 1);
            check_capture_spans(rep, c, text, text, &g);
            // after partitioning spans refer to the postfix expression (borrowed and owned)
            if let Ok((_, Some(post))) = guard(|| g.clone().partition()) {
                let ptext = post.to_string();
                if Glob::new(&ptext).is_ok() {
                    check_capture_spans(rep, c, text, &ptext, &post);
                }
                else {
                    bump(c, "postfix_text_does_not_build", 1);
                }
            }
            let owned = g.clone().into_owned();
            check_capture_spans(rep, c, text, text, &owned);
            if let Ok((_, Some(post))) = guard(|| owned.partition()) {
                let ptext = post.to_string();
                if Glob::new(&ptext).is_ok() {
                    check_capture_spans(rep, c, text, &ptext, &post);
                }
            }
        },
    }
}

/// The alignment family: malformed (and well-formed) expressions in which a multi-byte character
/// begins at every byte offset 0..=70 after / before a construct that fails to parse or breaks a
/// rule, so that every fixed-width cut, look-ahead or offset computed in bytes meets a character
/// boundary it does not own. Closed family: 13 constructs x 71 offsets x 3 characters x 2 orders.
pub fn alignment_family(tier: Tier) -> Vec<String> {
    let constructs = ["{", "<", "[", "[!", "{a,", "<a:", "<a:1,", "***", "**a", "(?i", "(?", "\\", "a//", "{a}", "<a:1,2>", "*", "**/", "(?i)", "[a]"];
    let chars = ["é", "金", "\u{10FFFF}"];
    let max = tier.pick(70usize, 140usize);
    let mut out = vec![];
    for c in constructs {
        for ch in chars {
            for j in 0..=max {
                let fill = "a".repeat(j);
                out.push(format!("{}{}{}aa", c, fill, ch));
                out.push(format!("{}{}aa{}", fill, ch, c));
            }
        }
    }
    out
}

pub fn c17(tier: Tier) -> i32 {
    let rep = Report::new("C17", tier, "exploration");
    {
        let fam = alignment_family(tier);
        rep.add("alignment_family", fam.len() as u64);
        fam.par_iter().for_each(|s| {
            let mut c = Counters::new();
            check_glob_spans(&rep, &mut c, s);
            rep.merge(&c);
        });
    }
    let mut alphabet: Vec<char> = S1_ALPHABET.to_vec();
    alphabet.push('é');
    let l = tier.pick(4u32, 5u32);
    let total = count_strings(alphabet.len() as u64, l);
    rep.add("strings", total);
    par_chunks(0, total, 4096).into_par_iter().for_each(|chunk| {
        let mut c = Counters::new();
        for idx in chunk {
            let s = nth_string(&alphabet, idx);
            check_glob_spans(&rep, &mut c, &s);
        }
        rep.merge(&c);
    });
    // program space (rule errors with multi-byte literals come from the substitution pass)
    let opts = SpaceOpts::standard(tier);
    let n = space::for_each_expr(&opts, &|e: &Expr| {
        let mut c = Counters::new();
        check_glob_spans(&rep, &mut c, &e.text);
        rep.merge(&c);
    });
    rep.add("program_space_expressions", n);
    let evaluations = total + n;
    let distinct = rep.get("error_spans_checked") + rep.get("capture_span_sets_checked");
    rep.finish(
        json!({
            "evaluations": evaluations,
            "distinct_nontrivial": distinct,
            "rule": format!("every string of length <= {} over the meta alphabet with 金 and é, and every expression of the program space (multi-byte literals next to faults): every span of every build error must lie inside the expression on character boundaries and slice without panicking; every capture span of every built glob and of its partition must delimit exactly the text of its sub-expression; distinct_nontrivial = spans checked", l),
            "samples": [{"string": nth_string(&alphabet, total - 7)}, {"string": "金\\"}],
            "exhaustive": true,
        }),
        vec!["a span extended to the left over directly preceding flag groups is accepted (the documentation does not say whether flags belong to a sub-expression)".into()],
    )
}

pub fn replay_spans(case: &Value) -> bool {
    let e = case["expression"].as_str().unwrap_or("");
    match Glob::new(e) {
        Err(err) => {
            let mut bad = false;
            for l in err.locations() {
                let r = span_ok(e, l.span());
                println!("error span {:?} of {:?}: {:?}", l.span(), e, r);
                bad |= r.is_err();
            }
            bad
        },
        Ok(g) => {
            let rep = Report::new("C17", Tier::Quick, "exploration");
            let mut c = Counters::new();
            check_capture_spans(&rep, &mut c, e, e, &g);
            if let (_, Some(post)) = g.clone().partition() {
                let pt = post.to_string();
                check_capture_spans(&rep, &mut c, e, &pt, &post);
            }
            let alarms = rep.alarms.lock().unwrap();
            for a in alarms.iter() {
                println!("{}", a.msg);
            }
            !alarms.is_empty()
        },
    }
}

#[allow(dead_code)]
fn unused(_: &Node, _: &Kind) {}
