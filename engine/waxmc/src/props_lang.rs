//! C01: matching conforms to the documented semantics. Product of the implementation's
//! automaton with the reference automaton, all reachable states, all paths.

use refmodel::automata::{self, Dfa, Monitor};
use refmodel::lang::{self, Deviations, Reference, Spec};
use refmodel::syntax;
use serde_json::json;
use wax::{Glob, Program};

use crate::common::{Alarm, Report, Tier};
use crate::model::{self, bump, Counters};
use crate::props_query::{finish_mc, for_each_glob};
use crate::space::SpaceOpts;

/// Prefix-closed "unspecified" conditions: U1 empty component, U2 leading separator against a
/// leading unrooted tree wildcard, U3 relative path against a sole rooted tree wildcard.
pub struct SpecMon {
    pub u2: bool,
    pub u3: bool,
}

/// (first: 0 none / 1 sep / 2 other, previous character was a separator)
impl Monitor for SpecMon {
    type S = (u8, bool);
    fn init(&self) -> Self::S {
        (0, false)
    }
    fn step(&self, s: &Self::S, _: u32, c: char) -> Option<Self::S> {
        let sep = c == '/';
        if sep && s.1 {
            return None; // U1
        }
        let first = if s.0 == 0 {
            if sep {
                1
            }
            else {
                2
            }
        }
        else {
            s.0
        };
        if self.u2 && first == 1 {
            return None;
        }
        if self.u3 && first == 2 {
            return None;
        }
        Some((first, sep))
    }
}

/// First disagreement between the implementation and a reference on the product, if any.
fn first_disagreement(
    c: &mut Counters,
    impl_dfa: &Dfa,
    r: &Reference,
    extra: &[char],
    validate: Option<&dyn Fn(&str) -> bool>,
) -> Result<Option<(String, bool, bool)>, String> {
    let ref_dfa = Dfa::new(&r.regex)?;
    let alphabet = automata::alphabet(&[impl_dfa.pattern.as_str(), r.regex.as_str()], extra)?;
    let mon = SpecMon { u2: r.u2, u3: r.u3 };
    let dfas = [impl_dfa, &ref_dfa];
    let ex = model::explore_counted(c, &dfas, &mon, &alphabet);
    let mut found = None;
    let strings = model::access_strings(&ex);
    for (i, (t, m)) in ex.states.iter().enumerate() {
        if r.u3 && m.0 == 0 {
            continue; // the empty path is relative
        }
        let a = automata::acc(&dfas, t, 0);
        let b = automata::acc(&dfas, t, 1);
        if let Some(real) = validate {
            bump(c, "traces_validated_against_impl", 1);
            let rr = real(&strings[i]);
            if rr != a {
                bump(c, "binding_mismatches", 1);
                // the real answer decides
                if rr != b && found.is_none() {
                    found = Some((strings[i].clone(), rr, b));
                }
                continue;
            }
        }
        if a != b && found.is_none() {
            found = Some((strings[i].clone(), a, b));
        }
    }
    Ok(found)
}

pub fn c01(tier: Tier) -> i32 {
    let rep = Report::new("C01", tier, "model_checking");
    let opts = SpaceOpts::standard(tier);
    for_each_glob(&rep, &opts, &|e, g, c| {
        let spec = lang::reference(&e.ast, &Deviations::default());
        let r = match spec {
            Spec::Unspecified(why) => {
                bump(c, "unspecified_expressions", 1);
                bump(
                    c,
                    if why.starts_with("U5") {
                        "unspecified_U5"
                    }
                    else if why.starts_with("U4") {
                        "unspecified_U4"
                    }
                    else {
                        "unspecified_other"
                    },
                    1,
                );
                return;
            },
            Spec::Specified(r) => r,
        };
        let Ok(impl_dfa) = model::dfa_of_glob(g) else {
            bump(c, "dfa_build_failed", 1);
            return;
        };
        bump(c, "specified_expressions", 1);
        if r.u2 {
            bump(c, "with_U2_prune", 1);
        }
        if r.u3 {
            bump(c, "with_U3_prune", 1);
        }
        if e.pass == "corpus" || e.text.len() <= 2 {
            rep.sample(json!({"expression": e.text, "impl": g.verif_program_text(), "reference": r.regex}));
        }
        let real = |p: &str| g.is_match(p);
        let dis = match first_disagreement(c, &impl_dfa, &r, &[], Some(&real)) {
            Ok(d) => d,
            Err(err) => {
                bump(c, "reference_dfa_failed", 1);
                rep.note(format!("reference DFA for `{}` failed: {}", e.text, err));
                return;
            },
        };
        let Some((path, got, want)) = dis else {
            bump(c, "conforming_expressions", 1);
            return;
        };
        // confirm through the public API (twice)
        let a = g.is_match(path.as_str());
        let b = g.is_match(path.as_str());
        if a != b {
            crate::common::machinery_failure("non-deterministic is_match");
        }
        if a == want {
            bump(c, "unconfirmed_model_witnesses", 1);
            return;
        }
        // attribute to a recorded deviation only if the implementation equals
        // reference + deviation on the WHOLE product
        let mut class = None;
        for (d1, d4, name) in [
            (true, false, "rooted-first-tree-optional-separator"),
            (false, true, "nested-tree-position"),
            (true, true, "nested-tree-position+rooted-first-tree-optional-separator"),
        ] {
            let dev = Deviations { d1, d2: false, d3: false, d4 };
            if let Spec::Specified(mut r2) = lang::reference(&e.ast, &dev) {
                r2.u2 = r.u2;
                r2.u3 = r.u3;
                let mut scratch = Counters::new();
                if let Ok(None) = first_disagreement(&mut scratch, &impl_dfa, &r2, &[], None) {
                    class = Some(name.to_string());
                    break;
                }
            }
        }
        let _ = got;
        rep.alarm(Alarm {
            class,
            key: e.text.clone(),
            msg: format!(
                "`{}`: is_match({:?}) = {} but the documented semantics says {} (impl regex {}, reference {})",
                e.text, path, a, want, g.verif_program_text(), r.regex
            ),
            case: json!({"kind": "lang", "expression": e.text, "path": path, "expected": want}),
        });
    });
    finish_mc(&rep, &opts, "every built expression of the tier's program space whose documented meaning is specified (U4/U5 excluded and counted); all reachable states of implDFA x referenceDFA x (U1,U2,U3) monitor; every reached state replayed through the public is_match")
}

pub fn replay_lang(case: &serde_json::Value) -> bool {
    let e = case["expression"].as_str().unwrap();
    let path = case["path"].as_str().unwrap();
    let expected = case["expected"].as_bool().unwrap();
    let g = Glob::new(e).unwrap();
    let got = g.is_match(path);
    let ast = syntax::parse(e).unwrap();
    let spec = lang::reference(&ast, &Deviations::default());
    println!("`{}`.is_match({:?}) = {}; documented semantics: {}", e, path, got, expected);
    if let Spec::Specified(r) = spec {
        let d = Dfa::new(&r.regex).unwrap();
        println!("  reference regex {} accepts: {}", r.regex, d.accepts(path));
    }
    println!("  implementation regex {}", g.verif_program_text());
    got != expected
}
