//! C01: matching conforms to the documented semantics. Product of the implementation's
//! automaton with the reference automaton, all reachable states, all paths.

use refmodel::automata::{self, Dfa, Monitor};
use refmodel::lang::{self, Deviations, Reference, Spec};
use refmodel::syntax;
use serde_json::json;
use wax::{Glob, Program};

use crate::common::{Alarm, Report, Tier};
use crate::model::{self, bump, Counters};
use crate::props_query::{finish_mc, for_each_glob};
use crate::space::SpaceOpts;

/// Prefix-closed "unspecified" conditions: U1 empty component, U2 leading separator against a
/// leading unrooted tree wildcard, U3 relative path against a sole rooted tree wildcard.
pub struct SpecMon {
    pub u2: bool,
    pub u3: bool,
}

/// (first: 0 none / 1 sep / 2 other, previous character was a separator)
impl Monitor for SpecMon {
    type S = (u8, bool);
    fn init(&self) -> Self::S {
        (0, false)
    }
    fn step(&self, s: &Self::S, _: u32, c: char) -> Option<Self::S> {
        let sep = c == '/';
        if sep && s.1 {
            return None; // U1
        }
        let first = if s.0 == 0 {
            if sep {
                1
            }
            else {
                2
            }
        }
        else {
            s.0
        };
        if self.u2 && first == 1 {
            return None;
        }
        if self.u3 && first == 2 {
            return None;
        }
        Some((first, sep))
    }
}

/// First disagreement between the implementation and a reference on the product, if any.
pub(crate) fn first_disagreement(
    c: &mut Counters,
    impl_dfa: &Dfa,
    r: &Reference,
    extra: &[char],
    validate: Option<&dyn Fn(&str) -> bool>,
) -> Result<Option<(String, bool, bool)>, String> {
    let ref_dfa = Dfa::new(&r.regex)?;
    let alphabet = automata::alphabet(&[impl_dfa.pattern.as_str(), r.regex.as_str()], extra)?;
    let mon = SpecMon { u2: r.u2, u3: r.u3 };
    let dfas = [impl_dfa, &ref_dfa];
    let ex = model::explore_counted(c, &dfas, &mon, &alphabet);
    let mut found = None;
    let strings = model::access_strings(&ex);
    for (i, (t, m)) in ex.states.iter().enumerate() {
        if r.u3 && m.0 == 0 {
            continue; // the empty path is relative
        }
        let a = automata::acc(&dfas, t, 0);
        let b = automata::acc(&dfas, t, 1);
        if let Some(real) = validate {
            bump(c, "traces_validated_against_impl", 1);
            let rr = real(&strings[i]);
            if rr != a {
                bump(c, "binding_mismatches", 1);
                // the real answer decides
                if rr != b && found.is_none() {
                    found = Some((strings[i].clone(), rr, b));
                }
                continue;
            }
        }
        if a != b && found.is_none() {
            found = Some((strings[i].clone(), a, b));
        }
    }
    // every other explored transition, replayed through the real matcher: the string that takes
    // it must be answered as the documented semantics says (the reference automaton's answer in
    // the target state), whatever the implementation automaton says
    if let Some(real) = validate {
        for (from, ch, to) in ex.cross.iter() {
            let (t, m) = &ex.states[*to as usize];
            if r.u3 && m.0 == 0 {
                continue;
            }
            let mut s = strings[*from as usize].clone();
            s.push(*ch);
            bump(c, "traces_validated_against_impl", 1);
            let rr = real(&s);
            if rr != automata::acc(&dfas, t, 0) {
                bump(c, "binding_mismatches", 1);
                let b = automata::acc(&dfas, t, 1);
                if rr != b && found.is_none() {
                    found = Some((s, rr, b));
                }
            }
        }
    }
    Ok(found)
}

pub fn c01(tier: Tier) -> i32 {
    let rep = Report::new("C01", tier, "model_checking");
    let opts = SpaceOpts::standard(tier);
    for_each_glob(&rep, &opts, &|e, g, c| {
        let spec = lang::reference(&e.ast, &Deviations::default());
        let r = match spec {
            Spec::Unspecified(why) => {
                bump(c, "unspecified_expressions", 1);
                bump(
                    c,
                    if why.starts_with("U5") {
                        "unspecified_U5"
                    }
                    else if why.starts_with("U4") {
                        "unspecified_U4"
                    }
                    else {
                        "unspecified_other"
                    },
                    1,
                );
                return;
            },
            Spec::Specified(r) => r,
        };
        let Ok(impl_dfa) = model::dfa_of_glob(g) else {
            bump(c, "dfa_build_failed", 1);
            return;
        };
        bump(c, "specified_expressions", 1);
        if r.u2 {
            bump(c, "with_U2_prune", 1);
        }
        if r.u3 {
            bump(c, "with_U3_prune", 1);
        }
        if e.pass == "corpus" || e.text.len() <= 2 {
            rep.sample(json!({"expression": e.text, "impl": g.verif_program_text(), "reference": r.regex}));
        }
        let real = |p: &str| g.is_match(p);
        let dis = match first_disagreement(c, &impl_dfa, &r, &[], Some(&real)) {
            Ok(d) => d,
            Err(err) => {
                bump(c, "reference_dfa_failed", 1);
                rep.note(format!("reference DFA for `{}` failed: {}", e.text, err));
                return;
            },
        };
        if std::env::var("WAXMC_TRACE").map_or(false, |t| t == e.text) {
            eprintln!("TRACE `{}` pass={} impl={} ref={} dis={:?}", e.text, e.pass, g.verif_program_text(), r.regex, dis);
        }
        let Some((path, got, want)) = dis else {
            bump(c, "conforming_expressions", 1);
            return;
        };
        // confirm through the public API (twice)
        let a = g.is_match(path.as_str());
        let b = g.is_match(path.as_str());
        if a != b {
            crate::common::machinery_failure("non-deterministic is_match");
        }
        if a == want {
            bump(c, "unconfirmed_model_witnesses", 1);
            return;
        }
        // attribute to a recorded deviation only if the implementation equals
        // reference + deviation on the WHOLE product
        let mut class = None;
        for (d1, d4, name) in [
            (true, false, "rooted-first-tree-optional-separator"),
            (false, true, "nested-tree-position"),
            (true, true, "nested-tree-position+rooted-first-tree-optional-separator"),
        ] {
            let dev = Deviations { d1, d2: false, d3: false, d4 };
            if let Spec::Specified(mut r2) = lang::reference(&e.ast, &dev) {
                r2.u2 = r.u2;
                r2.u3 = r.u3;
                let mut scratch = Counters::new();
                // (judged by the real matcher: where the automaton and `is_match` differ, the real answer decides here too)
                if let Ok(None) = first_disagreement(&mut scratch, &impl_dfa, &r2, &[], Some(&real)) {
                    class = Some(name.to_string());
                    break;
                }
            }
        }
        let _ = got;
        rep.alarm(Alarm {
            class,
            key: e.text.clone(),
            msg: format!(
                "`{}`: is_match({:?}) = {} but the documented semantics says {} (impl regex {}, reference {})",
                e.text, path, a, want, g.verif_program_text(), r.regex
            ),
            case: json!({"kind": "lang", "expression": e.text, "path": path, "expected": want}),
        });
    });
    // combinators: the documented meaning of `any` is the union of the documented meanings of its
    // patterns (text, compiled and nested routes), decided on the same product
    {
        use rayon::prelude::*;
        let picks: Vec<&'static str> = tier.pick(
            vec!["", "a", "*", "a/b", "?", "[!a]", "{a,b}", "<a:1,2>", "(?i)a", "a*", "<a/>b", "**/a", "a/**"],
            vec!["", "a", "*", "a/b", "?", "[!a]", "{a,b}", "<a:1,2>", "(?i)a", "a*", "<a/>b", "**/a", "a/**", "$", "<a>", "{a,}", "a/**/b", "**", "<*/>", "[a]"],
        );
        let pairs: Vec<(usize, usize)> = (0..picks.len()).flat_map(|i| (0..picks.len()).map(move |j| (i, j))).collect();
        pairs.par_iter().for_each(|(i, j)| {
            let mut c = Counters::new();
            let (p, q) = (picks[*i], picks[*j]);
            let refs: Vec<Option<Reference>> = [p, q]
                .iter()
                .map(|t| match syntax::parse(t).ok().map(|ast| lang::reference(&ast, &Deviations::default())) {
                    Some(Spec::Specified(r)) if !r.u2 && !r.u3 => Some(r),
                    _ => None,
                })
                .collect();
            let (Some(rp), Some(rq)) = (&refs[0], &refs[1]) else {
                rep.merge(&c);
                return;
            };
            let union = Reference { regex: format!("(?:{})|(?:{})", rp.regex, rq.regex), u2: false, u3: false };
            let compiled = |t: &'static str| Glob::new(t).ok();
            let routes: Vec<(&'static str, Option<wax::Any<'static>>)> = vec![
                ("text", wax::any([p, q]).ok()),
                ("compiled", compiled(p).zip(compiled(q)).and_then(|(a, b)| wax::any([a, b]).ok())),
                (
                    "nested",
                    compiled(p)
                        .zip(compiled(q))
                        .and_then(|(a, b)| wax::any([a]).ok().zip(wax::any([b]).ok()))
                        .and_then(|(a, b)| wax::any([a, b]).ok()),
                ),
            ];
            for (route, any) in routes {
                let Some(any) = any else { continue };
                let Ok(impl_dfa) = model::dfa_of_any(&any) else { continue };
                bump(&mut c, "any_pairs_checked", 1);
                let real = |path: &str| any.is_match(path);
                let Ok(dis) = first_disagreement(&mut c, &impl_dfa, &union, &[], Some(&real)) else { continue };
                if let Some((path, _got, want)) = dis {
                    let a = any.is_match(path.as_str());
                    if a == want {
                        bump(&mut c, "unconfirmed_model_witnesses", 1);
                        continue;
                    }
                    // a deviation of one of the patterns alone is that pattern's alarm (and finding)
                    let alone = [p, q].iter().any(|t| Glob::new(t).map_or(false, |g| {
                        let r = if *t == p { rp } else { rq };
                        Dfa::new(&r.regex).map_or(false, |d| d.accepts(&path) != g.is_match(path.as_str()))
                    }));
                    if alone {
                        bump(&mut c, "any_deviation_of_a_member_alone", 1);
                        continue;
                    }
                    rep.alarm(Alarm {
                        class: None,
                        key: format!("any {} {:?} {:?}", route, p, q),
                        msg: format!("any([{:?}, {:?}]) ({} route): is_match({:?}) = {} but the union of the documented meanings says {}", p, q, route, path, a, want),
                        case: json!({"kind": "lang_any", "patterns": [p, q], "route": route, "path": path, "expected": want}),
                    });
                }
            }
            rep.merge(&c);
        });
    }
    finish_mc(&rep, &opts, "every built expression of the tier's program space whose documented meaning is specified (U4/U5 excluded and counted); all reachable states of implDFA x referenceDFA x (U1,U2,U3) monitor; every explored TRANSITION (BFS tree and cross edges) replayed through the public is_match, whose answer decides")
}

pub fn replay_lang_any(case: &serde_json::Value) -> bool {
    let pats: Vec<String> = case["patterns"].as_array().unwrap().iter().map(|p| p.as_str().unwrap().to_string()).collect();
    let path = case["path"].as_str().unwrap();
    let expected = case["expected"].as_bool().unwrap();
    let got = match case["route"].as_str().unwrap_or("text") {
        "text" => wax::any(pats.iter().map(|s| s.as_str())).unwrap().is_match(path),
        "compiled" => wax::any(pats.iter().map(|s| Glob::new(s).unwrap())).unwrap().is_match(path),
        _ => wax::any(pats.iter().map(|s| wax::any([Glob::new(s).unwrap()]).unwrap())).unwrap().is_match(path),
    };
    println!("any({:?}).is_match({:?}) = {}; union of the documented meanings: {}", pats, path, got, expected);
    for p in &pats {
        println!("  `{}`.is_match({:?}) = {}", p, path, Glob::new(p).unwrap().is_match(path));
    }
    got != expected
}

pub fn replay_lang(case: &serde_json::Value) -> bool {
    let e = case["expression"].as_str().unwrap();
    let path = case["path"].as_str().unwrap();
    let expected = case["expected"].as_bool().unwrap();
    let g = Glob::new(e).unwrap();
    let got = g.is_match(path);
    let ast = syntax::parse(e).unwrap();
    let spec = lang::reference(&ast, &Deviations::default());
    println!("`{}`.is_match({:?}) = {}; documented semantics: {}", e, path, got, expected);
    if let Spec::Specified(r) = spec {
        let d = Dfa::new(&r.regex).unwrap();
        println!("  reference regex {} accepts: {}", r.regex, d.accepts(path));
    }
    println!("  implementation regex {}", g.verif_program_text());
    got != expected
}
