//! C06: rule checking accepts exactly the well-formed expressions, context-free.

use refmodel::rules::{self, Verdict};
use refmodel::syntax::{self, Kind, Node, Seq};
use serde_json::json;
use wax::query::When;
use wax::{Glob, Program};

use crate::common::{Alarm, Report, Tier};
use crate::model::{self, bump, Built, Counters};
use crate::space::{self, Expr, SpaceOpts};

fn size_family() -> Vec<String> {
    let mut v: Vec<String> = vec![
        "<a:65535>", "<a:65536>", "<ab:32768>", "<ab:32767>", "<<a:256>:256>", "<<a:256>:255>", "{<a:65536>,b}",
        "<[a]:20000>", "<[a]:16384>", "<[a]:16383>", "<?:16384>", "<a/:32768>", "<a/:32767>", "x<a:65535>", "x<a:65534>",
        "<a:65535>x", "<<ab:128>:256>", "<金:21846>", "<金:21845>", "<a:0,65536>", "<a:65536,>", "{<a:65535>b,c}",
    ]
    .iter()
    .map(|s| s.to_string())
    .collect();
    // the same limits under a case-insensitive flag (the limit is on the bytes of the text as written)
    for t in ["(?i)<a:16384>", "(?i)<a:16385>", "(?i)<a:32768>", "(?i)<a:65535>", "(?i)<a:65536>", "<(?i)a:16384>", "<(?i)a:65535>", "(?i)<ab/:8000>", "(?i)<é:20000>", "(?i)<é:32768>", "(?-i)<a:65535>", "(?i)<1:65535>", "(?i)x<a:65534>", "{(?i)<a:20000>,b}"] {
        v.push(t.to_string());
    }
    v.push(format!("(?i){}", "a".repeat(20000)));
    v.push(format!("(?i){}", "a".repeat(65535)));
    v.push(format!("(?i){}", "a".repeat(65536)));
    v.push("a".repeat(65535));
    v.push("a".repeat(65536));
    v.push(format!("{}/{}", "a".repeat(40000), "b".repeat(30000)));
    v
}

/// Structural predicates naming the construct behind a recorded rule-checker finding.
fn classify(ast: &Seq, built: bool, verdict: &Verdict) -> Option<String> {
    match (built, verdict) {
        // accepted although a rule demands rejection
        (true, Verdict::MustFail(why)) => {
            if *why == "rooting branch" {
                return Some("rooting-through-nested-branch".into());
            }
            if *why == "adjacent component boundaries" && boundary_through_nested_branch(ast) {
                return Some("boundary-through-nested-branch".into());
            }
            if sibling_branches(ast) {
                return Some("stale-outer-context".into());
            }
            None
        },
        // rejected although well-formed
        (false, Verdict::MustBuild) => {
            if flag_before_leading_tree(ast) {
                return Some("flags-before-leading-tree".into());
            }
            if sibling_branches(ast) {
                return Some("stale-outer-context".into());
            }
            None
        },
        _ => None,
    }
}

fn count_branches(seq: &[Node]) -> usize {
    seq.iter()
        .map(|n| match &n.kind {
            Kind::Alt(bs) => 1 + bs.iter().map(|b| count_branches(b)).sum::<usize>(),
            Kind::Rep { body, .. } => 1 + count_branches(body),
            _ => 0,
        })
        .sum()
}

/// two or more branch tokens in the expression: the rule checker's single mutable neighbour
/// context and its position-keyed boundary grouping relate tokens of different branches
fn sibling_branches(seq: &[Node]) -> bool {
    count_branches(seq) >= 2
}

/// a boundary token that is the first or last token of a branch nested (at least one level) in
/// another branch, or in a repetition that repeats
fn boundary_through_nested_branch(seq: &[Node]) -> bool {
    fn edge_boundary_nested(seq: &[Node], depth: usize) -> bool {
        let toks: Vec<&Node> = seq.iter().filter(|n| !n.is_flag()).collect();
        for (i, n) in toks.iter().enumerate() {
            let edge = i == 0 || i + 1 == toks.len();
            match &n.kind {
                Kind::Sep | Kind::Tree { .. } => {
                    if edge && depth >= 2 {
                        return true;
                    }
                },
                Kind::Alt(bs) => {
                    if bs.iter().any(|b| edge_boundary_nested(b, depth + 1)) {
                        return true;
                    }
                },
                Kind::Rep { body, .. } => {
                    if edge_boundary_nested(body, depth + 1) {
                        return true;
                    }
                },
                _ => {},
            }
        }
        false
    }
    edge_boundary_nested(seq, 0)
}

fn flag_before_leading_tree(seq: &[Node]) -> bool {
    fn go(seq: &[Node]) -> bool {
        let mut seen_flag = false;
        for n in seq {
            match &n.kind {
                Kind::Flag(_) => seen_flag = true,
                Kind::Tree { lead: false, .. } => return seen_flag,
                _ => break,
            }
        }
        seq.iter().any(|n| match &n.kind {
            Kind::Alt(bs) => bs.iter().any(|b| go(b)),
            Kind::Rep { body, .. } => go(body),
            _ => false,
        })
    }
    go(seq)
}

fn judge(rep: &Report, c: &mut Counters, text: &str, ast: &Seq) {
    let verdict = rules::check(ast);
    let built = match model::build(text) {
        Built::Ok(g) => {
            if g.has_root() == When::Sometimes {
                let class = if rules::roots_through_branch(ast) { Some("rooting-through-nested-branch".to_string()) } else { None };
                rep.alarm(Alarm {
                    class,
                    key: format!("sometimes {}", text),
                    msg: format!("glob `{}` reports has_root()=Sometimes", text),
                    case: json!({"kind": "rules", "expression": text, "check": "sometimes"}),
                });
            }
            true
        },
        Built::Err(e) if e == "failed to compile glob: oversized program" => {
            // a compile error, not a verdict of the rule checker (C05's business)
            bump(c, "oversized_program", 1);
            return;
        },
        Built::Err(_) => false,
        Built::Panic(_) => {
            bump(c, "skipped_panics", 1);
            return;
        },
    };
    match &verdict {
        Verdict::Unspecified(_) => {
            bump(c, "unspecified", 1);
            return;
        },
        Verdict::MustBuild => bump(c, "reference_must_build", 1),
        Verdict::MustFail(_) => bump(c, "reference_must_fail", 1),
    }
    let expected = matches!(verdict, Verdict::MustBuild);
    if built == expected {
        bump(c, "agree", 1);
        return;
    }
    let class = classify(ast, built, &verdict);
    rep.alarm(Alarm {
        class,
        key: text.to_string(),
        msg: match &verdict {
            Verdict::MustFail(why) => format!("`{}` builds although the documented rules reject it ({})", text, why),
            _ => format!(
                "`{}` is well-formed by the documented rules but is rejected: {}",
                text,
                Glob::new(text).err().map(|e| e.to_string()).unwrap_or_default()
            ),
        },
        case: json!({"kind": "rules", "expression": text, "check": "verdict", "expected_builds": expected}),
    });
}

pub fn c06(tier: Tier) -> i32 {
    let rep = Report::new("C06", tier, "exploration");
    let mut opts = SpaceOpts::standard(tier);
    opts.subst_single = 2;
    opts.subst_pairs = 0;
    let n = space::for_each_expr(&opts, &|e: &Expr| {
        let mut c = Counters::new();
        judge(&rep, &mut c, &e.text, &e.ast);
        if e.text.len() <= 2 || e.pass == "corpus" {
            rep.sample(json!({"expression": e.text, "reference": format!("{:?}", rules::check(&e.ast)), "builds": model::build_ok(&e.text).is_some()}));
        }
        rep.merge(&c);
    });
    rep.add("programs_enumerated", n);
    // rule alphabet: the token classes the rules tell apart, to a larger size than the core
    // alphabet reaches (a boundary at both ends of a repetition body reached through the branch of
    // an alternation that is not written last needs size 7: `a<{/a/,a}>`)
    let env = |k: &str, d: usize| std::env::var(k).ok().and_then(|v| v.parse().ok()).unwrap_or(d);
    let rules_max = env("WAXMC_C06_RULES_MAX", tier.pick(6usize, 7usize));
    let boundaries_max = env("WAXMC_C06_BOUNDARIES_MAX", tier.pick(8usize, 9usize));
    {
        use rayon::prelude::*;
        use refmodel::gen::{Gen, GenCfg};
        for (cfg, from, to, counter) in [
            (GenCfg::rules(), opts.shape + 1, rules_max, "rule_alphabet_expressions"),
            (GenCfg::boundaries(), rules_max + 1, boundaries_max, "boundary_alphabet_expressions"),
        ] {
            if to < from {
                continue;
            }
            let g = Gen::new(cfg, to);
            let count = std::sync::atomic::AtomicU64::new(0);
            let visit = |ast: &Seq| {
                let mut ast = ast.clone();
                let text = syntax::print(&mut ast);
                let mut c = Counters::new();
                judge(&rep, &mut c, &text, &ast);
                bump(&mut c, counter, 1);
                rep.merge(&c);
                count.fetch_add(1, std::sync::atomic::Ordering::Relaxed);
            };
            for size in from..=to {
                let tasks = g.tasks(size);
                tasks.par_iter().for_each(|prefix| {
                    g.for_each_with_prefix(size, prefix, &mut |s: &Seq| visit(s));
                });
                if size == g.max_size {
                    (0..g.top_item_chunks()).into_par_iter().for_each(|c| {
                        g.for_each_top_item(c, &mut |s: &Seq| visit(s));
                    });
                }
            }
            rep.add("programs_enumerated", count.load(std::sync::atomic::Ordering::Relaxed));
        }
    }
    for text in size_family() {
        let mut c = Counters::new();
        match syntax::parse(&text) {
            Ok(ast) => judge(&rep, &mut c, &text, &ast),
            Err(_) => bump(&mut c, "size_family_unparsed", 1),
        }
        bump(&mut c, "size_family", 1);
        rep.merge(&c);
    }
    let evaluations = rep.get("programs_enumerated") + rep.get("size_family");
    let distinct = rep.get("reference_must_build") + rep.get("reference_must_fail");
    rep.finish(
        json!({
            "evaluations": evaluations,
            "distinct_nontrivial": distinct,
            "rule": format!("every expression of the documented syntax with size <= {} over the core alphabet (all arrangements of up to {} branches nested to depth 3 at every position), reduced alphabet up to size {}, the rule alphabet {{a, /, *, **, {{,}}, <>, <:1,>}} up to size {}, the boundary alphabet {{a, /, {{,}}, <>, <:1,>}} up to size {}, the corpus and the size family; Glob::new(e).is_ok() against the three-valued reference rule checker; distinct_nontrivial = expressions with a specified reference verdict", opts.shape, opts.shape - 1, opts.reduced, rules_max, boundaries_max),
            "exhaustive": true,
        }),
        vec!["the reference rule checker (refmodel::rules) is right where it is specified; error kinds are not compared".into()],
    )
}

pub fn replay_rules(case: &serde_json::Value) -> bool {
    let e = case["expression"].as_str().unwrap();
    let ast = syntax::parse(e).unwrap();
    let verdict = rules::check(&ast);
    match Glob::new(e) {
        Ok(g) => {
            println!("`{}` builds; has_root() = {:?}; reference verdict: {:?}", e, g.has_root(), verdict);
            if case["check"].as_str() == Some("sometimes") {
                g.has_root() == When::Sometimes
            }
            else {
                matches!(verdict, Verdict::MustFail(_))
            }
        },
        Err(err) => {
            println!("`{}` is rejected: {}; reference verdict: {:?}", e, err, verdict);
            matches!(verdict, Verdict::MustBuild)
        },
    }
}
