//! C15 (depth and link behaviours) and C20 (I/O faults): worlds with symbolic links and
//! unreadable directories, every placement, walked for real and compared with the reference
//! traversal.

use rayon::prelude::*;
use refmodel::fsworld::{self, EKind, ErrKind, RItem, World};
use serde_json::{json, Value};
use std::collections::{BTreeMap, BTreeSet};
use std::num::NonZeroUsize;
use wax::walk::{DepthBehavior, DepthMax, DepthMin, DepthMinMax, LinkBehavior, WalkBehavior};
use wax::{Glob, Program};

use crate::common::{guard, Alarm, Report, Tier};
use crate::fswalk::{self, Got, Place, Scratch};
use crate::model::{bump, Counters};
use crate::props_fs::{link_from, link_name, world_from_json, world_json};

#[derive(Clone, Debug, PartialEq, Eq)]
pub enum DepthSpec {
    Unbounded,
    Bounded(Option<usize>, Option<usize>),
    FromDepthsOrMax(usize, usize),
    FromMinOrUnbounded(usize),
    Max(usize),
    MinMaxStruct(usize, usize),
    AtVariance(Option<usize>, Option<usize>),
}

impl DepthSpec {
    pub fn describe(&self) -> String {
        format!("{:?}", self)
    }
    fn to_json(&self) -> Value {
        match self {
            DepthSpec::Unbounded => json!({"k": "unbounded"}),
            DepthSpec::Bounded(a, b) => json!({"k": "bounded", "a": a, "b": b}),
            DepthSpec::FromDepthsOrMax(a, b) => json!({"k": "from_depths_or_max", "a": a, "b": b}),
            DepthSpec::FromMinOrUnbounded(a) => json!({"k": "from_min_or_unbounded", "a": a}),
            DepthSpec::Max(a) => json!({"k": "max", "a": a}),
            DepthSpec::MinMaxStruct(a, b) => json!({"k": "minmax", "a": a, "b": b}),
            DepthSpec::AtVariance(a, b) => json!({"k": "at_variance", "a": a, "b": b}),
        }
    }
    fn from_json(v: &Value) -> DepthSpec {
        let a = v["a"].as_u64().map(|x| x as usize);
        let b = v["b"].as_u64().map(|x| x as usize);
        match v["k"].as_str().unwrap_or("") {
            "bounded" => DepthSpec::Bounded(a, b),
            "from_depths_or_max" => DepthSpec::FromDepthsOrMax(a.unwrap_or(0), b.unwrap_or(0)),
            "from_min_or_unbounded" => DepthSpec::FromMinOrUnbounded(a.unwrap_or(0)),
            "max" => DepthSpec::Max(a.unwrap_or(0)),
            "minmax" => DepthSpec::MinMaxStruct(a.unwrap_or(1), b.unwrap_or(0)),
            "at_variance" => DepthSpec::AtVariance(a, b),
            _ => DepthSpec::Unbounded,
        }
    }

    /// (behaviour, documented range [min, max]) or None if the constructor refuses the bounds.
    pub fn resolve(&self, glob: &Glob<'_>) -> Option<(DepthBehavior, usize, Option<usize>)> {
        match self {
            DepthSpec::Unbounded => Some((DepthBehavior::Unbounded, 0, None)),
            DepthSpec::Bounded(min, max) => {
                let b = DepthBehavior::bounded(*min, *max)?;
                Some((b, min.unwrap_or(0), *max))
            },
            DepthSpec::FromDepthsOrMax(p, q) => {
                Some((DepthMinMax::from_depths_or_max(*p, *q), *p.min(q), Some(*p.max(q))))
            },
            DepthSpec::FromMinOrUnbounded(m) => Some((DepthMin::from_min_or_unbounded(*m), *m, None)),
            DepthSpec::Max(m) => Some((DepthBehavior::Max(DepthMax(*m)), 0, Some(*m))),
            DepthSpec::MinMaxStruct(min, extent) => {
                let min = NonZeroUsize::new(*min)?;
                Some((DepthBehavior::MinMax(DepthMinMax { min, extent: *extent }), min.get(), Some(min.get() + extent)))
            },
            DepthSpec::AtVariance(min, max) => {
                use wax::query::{Boundedness, DepthVariance};
                let depth = glob.depth();
                let lower = match depth {
                    DepthVariance::Invariant(n) => n,
                    DepthVariance::Variant(r) => match r.lower() {
                        Boundedness::Bounded(n) => n.get(),
                        Boundedness::Unbounded => 0,
                    },
                };
                let b = DepthBehavior::bounded_at_depth_variance(*min, *max, depth)?;
                Some((b, min.map_or(0, |m| m + lower), max.map(|m| m + lower)))
            },
        }
    }
}

pub fn depth_specs(tier: Tier) -> Vec<DepthSpec> {
    let top = tier.pick(3usize, 4usize);
    let opt: Vec<Option<usize>> = std::iter::once(None).chain((0..=top).map(Some)).collect();
    let mut v = vec![DepthSpec::Unbounded];
    for a in &opt {
        for b in &opt {
            if a.is_some() || b.is_some() {
                v.push(DepthSpec::Bounded(*a, *b));
            }
        }
    }
    for a in 0..=top {
        for b in 0..=top {
            v.push(DepthSpec::FromDepthsOrMax(a, b));
        }
        v.push(DepthSpec::FromMinOrUnbounded(a));
        v.push(DepthSpec::Max(a));
    }
    for a in 1..=2 {
        for e in 0..=2 {
            v.push(DepthSpec::MinMaxStruct(a, e));
        }
    }
    let small: Vec<Option<usize>> = vec![None, Some(0), Some(1), Some(2)];
    for a in &small {
        for b in &small {
            if a.is_some() || b.is_some() {
                v.push(DepthSpec::AtVariance(*a, *b));
            }
        }
    }
    v
}

pub const C15_GLOBS: [&str; 10] = ["**", "*", "*/*", "a/**", "a/*", "a/b/**", "**/a", "a/**/a", "a/b", "{a,b}/**"];

fn case_json(world: &World, glob: &str, link: LinkBehavior, spec: &DepthSpec) -> Value {
    json!({"kind": "depthwalk", "world": world_json(world), "glob": glob, "link": link_name(link), "depth": spec.to_json()})
}

pub struct DepthOutcome {
    pub yielded: BTreeMap<String, usize>,
    pub expected: BTreeMap<String, usize>,
    pub got_errors: BTreeMap<(String, bool), usize>,
    pub expected_errors: BTreeMap<(String, bool), usize>,
    pub pivot: usize,
    pub range: (usize, Option<usize>),
    pub prefix: String,
    pub prefix_ok: bool,
}

fn multiset<T: Ord>(v: impl IntoIterator<Item = T>) -> BTreeMap<T, usize> {
    let mut m = BTreeMap::new();
    for x in v {
        *m.entry(x).or_insert(0) += 1;
    }
    m
}

/// One glob walk with link and depth behaviour; the reference is computed from the in-memory
/// world. Ok(None): not applicable (constructor refuses the bounds, prefix through a link).
/// The per-component programs a glob walk prunes with (hook H2), as automata: a directory whose
/// k-th component (counted from the directory given to the walk, invariant prefix included) is not
/// matched by the k-th program is discarded as a tree - it is still produced as residue, but
/// nothing beneath it is read. Entries deeper than the programs reach are never pruned.
pub struct Pruner {
    programs: Vec<refmodel::automata::Dfa>,
}

impl Pruner {
    pub fn of(glob: &Glob<'_>) -> Option<Pruner> {
        let texts = guard(|| glob.verif_walk_component_texts()).ok()?;
        let programs: Vec<_> = texts.iter().filter_map(|t| refmodel::automata::Dfa::new_search(t).ok()).collect();
        if programs.len() != texts.len() {
            return None;
        }
        Some(Pruner { programs })
    }

    /// `comps`: the components of an entry below the given directory.
    pub fn mismatch(&self, comps: &[String]) -> bool {
        let k = comps.len();
        k >= 1 && k <= self.programs.len() && !self.programs[k - 1].accepts(comps[k - 1].as_str())
    }
}

pub fn run_depth_walk(
    place: &Place,
    world: &World,
    g: &str,
    link: LinkBehavior,
    spec: &DepthSpec,
) -> Result<Option<DepthOutcome>, String> {
    let r = guard(|| -> Result<Option<DepthOutcome>, String> {
        let glob = Glob::new(g).map_err(|e| format!("{}", e))?;
        if !glob.has_root().is_never() {
            return Ok(None);
        }
        let Some((behavior, min, max)) = spec.resolve(&glob) else { return Ok(None) };
        let (prefix, _) = glob.clone().partition();
        let prefix_text = prefix.to_string_lossy().to_string();
        let comps: Vec<&str> = prefix_text.split('/').filter(|c| !c.is_empty()).collect();
        let pivot = comps.len();
        // the prefix must name real directories (a link in the prefix is unspecified)
        let mut start: Option<Vec<usize>> = Some(vec![]);
        let mut cur = &world.root;
        for c in &comps {
            match cur.children().iter().position(|x| x.name == *c) {
                Some(i) => {
                    let child = &cur.children()[i];
                    if matches!(child.kind, fsworld::FKind::Link { .. }) {
                        return Ok(None);
                    }
                    if let Some(s) = start.as_mut() {
                        s.push(i);
                    }
                    cur = child;
                },
                None => {
                    start = None;
                    break;
                },
            }
        }
        let follow = link == LinkBehavior::ReadTarget;
        let mut expected = vec![];
        let mut expected_errors = vec![];
        // directories the walker prunes (their component fails its program): nothing beneath
        // them is read, so neither entries nor error items come from there
        let pruner = Pruner::of(&glob);
        let mut cut: Vec<Vec<String>> = vec![];
        if let Some(start) = &start {
            for it in fsworld::traverse(world, start, follow) {
                let mut full: Vec<String> = comps.iter().map(|s| s.to_string()).collect();
                full.extend(it.rel().iter().cloned());
                if cut.iter().any(|c| full.len() > c.len() && full[..c.len()] == c[..]) {
                    continue;
                }
                if let RItem::Entry { kind: fsworld::EKind::Dir, .. } = &it {
                    // a directory above the minimum depth is not produced by the underlying
                    // traversal at all, so the glob walker never sees it and cannot prune it
                    let seen_by_walker = it.rel().len() >= min.saturating_sub(pivot);
                    if seen_by_walker && pruner.as_ref().map_or(false, |p| p.mismatch(&full)) {
                        cut.push(full.clone());
                    }
                }
                if matches!(it, RItem::Err { kind: ErrKind::Io, .. }) && cut.contains(&full) {
                    // the unreadable directory is pruned before it is opened
                    continue;
                }
                let depth = full.len();
                let text = full.join("/");
                match it {
                    RItem::Entry { .. } => {
                        // the base itself may be yielded only if the glob matches the empty
                        // path; it is never required (C02)
                        if text.is_empty() {
                            continue;
                        }
                        if depth >= min && max.map_or(true, |m| depth <= m) && glob.is_match(text.as_str()) {
                            expected.push(text);
                        }
                    },
                    RItem::Err { kind, .. } => expected_errors.push((text, kind == ErrKind::Loop)),
                }
            }
        }
        let wb = WalkBehavior { depth: behavior, link };
        let cap = 40 * (world.entries() + 2) + 100;
        let got = fswalk::collect_glob(glob.walk_with_behavior(place.abs.clone(), wb), cap)
            .ok_or_else(|| "walk does not terminate (item cap hit)".to_string())?;
        let mut yielded = vec![];
        let mut got_errors = vec![];
        for it in &got {
            match it {
                Got::Ok(e) => {
                    let t = fswalk::rel_text(&e.path, &place.abs).unwrap_or_else(|| format!("<outside:{}>", e.path.display()));
                    if t.is_empty() {
                        if !(glob.is_match("") && min == 0) {
                            yielded.push("<base itself>".to_string());
                        }
                        continue;
                    }
                    yielded.push(t)
                },
                Got::Err { path, is_loop, .. } => got_errors.push((
                    path.as_ref().and_then(|p| fswalk::rel_text(p, &place.abs)).unwrap_or_else(|| "<no path>".into()),
                    *is_loop,
                )),
            }
        }
        Ok(Some(DepthOutcome {
            yielded: multiset(yielded),
            expected: multiset(expected),
            got_errors: multiset(got_errors),
            expected_errors: multiset(expected_errors),
            pivot,
            range: (min, max),
            prefix: prefix_text,
            // errors are tolerated (not required) when the prefix does not name a directory
            prefix_ok: start.as_ref().and_then(|s| fsworld::node_at(world, s)).map_or(false, |n| n.is_dir()),
        }))
    });
    match r {
        Ok(x) => x,
        Err(p) => Err(format!("panic: {}", p)),
    }
}

/// `strict_errors`: the error items must equal the reference's (no pruning glob); otherwise
/// they only have to be among them (errors beneath pruned directories are never produced).
pub fn judge_depth_public(o: &DepthOutcome, strict_errors: bool) -> (Vec<String>, Option<String>) {
    judge_depth(o, strict_errors && o.range.1.is_none())
}

fn judge_depth(o: &DepthOutcome, max_is_none: bool) -> (Vec<String>, Option<String>) {
    let mut problems = vec![];
    let mut class = None;
    if o.yielded != o.expected {
        problems.push(format!(
            "yielded {:?}, expected {:?} (depth range [{}, {:?}] from the root segment, prefix {:?})",
            o.yielded, o.expected, o.range.0, o.range.1, o.prefix
        ));
        // recorded finding: a maximum smaller than the prefix length still yields the prefix
        // directory itself
        let extra: Vec<&String> = o.yielded.keys().filter(|k| !o.expected.contains_key(*k)).collect();
        let missing = o.expected.keys().any(|k| !o.yielded.contains_key(k));
        if let Some(max) = o.range.1 {
            if o.pivot > max && !missing && extra.len() == 1 && *extra[0] == o.prefix && o.yielded.values().all(|n| *n == 1) {
                class = Some("maximum-depth-below-prefix".to_string());
            }
        }
    }
    if o.prefix_ok {
        if max_is_none {
            if o.got_errors != o.expected_errors {
                problems.push(format!("error items {:?}, expected {:?}", o.got_errors, o.expected_errors));
                class = None;
            }
        }
        else {
            for (k, n) in &o.got_errors {
                if o.expected_errors.get(k).copied().unwrap_or(0) < *n {
                    problems.push(format!("unexpected error item {:?}", k));
                    class = None;
                }
            }
        }
    }
    (problems, class)
}

pub fn link_worlds(tier: Tier) -> Vec<World> {
    let mut base = fsworld::worlds(tier.pick(2, 3), &["a", "b"], 3);
    // a few deeper fixed worlds: depth limits beyond prefixes of two components need depth 4-5
    {
        use fsworld::FNode;
        let f = FNode::file;
        let d = FNode::dir;
        base.push(World::new(vec![d("a", vec![d("b", vec![d("a", vec![d("b", vec![f("a")])])])])]));
        base.push(World::new(vec![d("a", vec![d("b", vec![f("a"), d("b", vec![f("a"), f("b")])]), f("a")]), f("b")]));
        base.push(World::new(vec![f("b"), d("a", vec![f("a"), d("b", vec![d("a", vec![f("b")]), f("b")])])]));
    }
    let mut out: BTreeSet<String> = BTreeSet::new();
    let mut ws = vec![];
    for w in &base {
        for lw in std::iter::once(w.clone()).chain(fsworld::with_link(w, "l")) {
            if out.insert(lw.describe()) {
                ws.push(lw.clone());
            }
            if tier == Tier::Thorough && lw.entries() <= 3 {
                for lw2 in fsworld::with_link(&lw, "k") {
                    if out.insert(lw2.describe()) {
                        ws.push(lw2);
                    }
                }
            }
        }
    }
    ws
}

pub fn c15(tier: Tier) -> i32 {
    let rep = Report::new("C15", tier, "exploration");
    let scratch = Scratch::new();
    let worlds = link_worlds(tier);
    let specs = depth_specs(tier);
    rep.add("worlds", worlds.len() as u64);
    rep.add("depth_specs", specs.len() as u64);
    let outcomes = std::sync::Mutex::new(BTreeSet::<u64>::new());
    worlds.par_iter().for_each(|world| {
        let mut c = Counters::new();
        let place = fswalk::place(&scratch, world);
        bump(&mut c, if place.order_ok { "orders_realised" } else { "orders_not_honoured" }, 1);
        let mut local = vec![];
        for g in C15_GLOBS {
            for link in [LinkBehavior::ReadFile, LinkBehavior::ReadTarget] {
                for spec in &specs {
                    match run_depth_walk(&place, world, g, link, spec) {
                        Ok(None) => bump(&mut c, "not_applicable", 1),
                        Err(msg) => {
                            rep.alarm(Alarm {
                                class: None,
                                key: format!("fail {} {} {} {:?}", world.describe(), g, link_name(link), spec),
                                msg: format!("walk of `{}` ({}, {}) in {} fails: {}", g, link_name(link), spec.describe(), world.describe(), msg),
                                case: case_json(world, g, link, spec),
                            });
                        },
                        Ok(Some(o)) => {
                            bump(&mut c, "walks", 1);
                            {
                                use std::hash::{Hash, Hasher};
                                let mut h = std::collections::hash_map::DefaultHasher::new();
                                (&o.yielded, &o.got_errors).hash(&mut h);
                                local.push(h.finish());
                            }
                            let (problems, class) = judge_depth(&o, o.range.1.is_none());
                            if !problems.is_empty() {
                                rep.alarm(Alarm {
                                    class,
                                    key: format!("{} {} {} {:?}", world.describe(), g, link_name(link), spec),
                                    msg: format!("walk of `{}` ({}, {}) in {}: {}", g, link_name(link), spec.describe(), world.describe(), problems.join("; ")),
                                    case: case_json(world, g, link, spec),
                                });
                            }
                        },
                    }
                }
            }
        }
        outcomes.lock().unwrap().extend(local);
        drop(place);
        rep.merge(&c);
    });
    drop(scratch);
    let walks = rep.get("walks");
    let distinct = outcomes.lock().unwrap().len() as u64;
    let samples: Vec<Value> = worlds.iter().rev().take(4).map(|w| json!(w.describe())).collect();
    rep.finish(
        json!({
            "evaluations": walks,
            "distinct_nontrivial": distinct,
            "rule": format!("every link-free world with <= {} entries over {{a,b}} (all child orders) and every world obtained by inserting one symbolic link (two in the thorough tier) at every position with every target kind (sibling file, sibling directory, `.`, `..`, `../..`, missing) x {} globs with prefix lengths 0-2 x both link behaviours x {} depth behaviours through every constructor; distinct_nontrivial = distinct (yield multiset, error multiset) outcomes", tier.pick(2, 3), C15_GLOBS.len(), specs.len()),
            "samples": samples,
            "exhaustive": true,
        }),
        vec![
            "walkdir / tmpfs behave as documented".into(),
            "a symbolic link as a component of the invariant prefix is unspecified and skipped".into(),
        ],
    )
}

pub fn replay_depthwalk(case: &Value) -> bool {
    let world = world_from_json(&case["world"]);
    let g = case["glob"].as_str().unwrap_or("");
    let link = link_from(case["link"].as_str().unwrap_or("ReadFile"));
    let spec = DepthSpec::from_json(&case["depth"]);
    let scratch = Scratch::new();
    let place = fswalk::place(&scratch, &world);
    println!("world {} (readdir order honoured: {})", world.describe(), place.order_ok);
    match run_depth_walk(&place, &world, g, link, &spec) {
        Err(msg) => {
            println!("walk fails: {}", msg);
            true
        },
        Ok(None) => {
            println!("not applicable");
            false
        },
        Ok(Some(o)) => {
            println!("walk of `{}` ({}, {}): prefix {:?} (pivot {}), documented depth range [{}, {:?}]", g, link_name(link), spec.describe(), o.prefix, o.pivot, o.range.0, o.range.1);
            println!("  yielded : {:?}  errors {:?}", o.yielded, o.got_errors);
            println!("  expected: {:?}  errors {:?}", o.expected, o.expected_errors);
            !judge_depth(&o, o.range.1.is_none()).0.is_empty()
        },
    }
}

#[allow(dead_code)]
fn unused(_: EKind) {}

// ---------------------------------------------------------------------------------------------
// C20
// ---------------------------------------------------------------------------------------------

use crate::props_stack::{self, BaseWalk, History, Layer, NotForm, NotModel, Verdict};
use refmodel::fsworld::{FKind, FNode};

#[derive(Clone, Debug, PartialEq, Eq)]
struct SeqItem {
    ok: bool,
    rel: String,
    is_loop: bool,
    optional: bool,
}

fn fault_paths(node: &FNode, prefix: &str, out: &mut Vec<(String, &'static str)>) {
    for c in node.children() {
        let p = if prefix.is_empty() { c.name.clone() } else { format!("{}/{}", prefix, c.name) };
        match &c.kind {
            FKind::Link { target } => {
                let kind = if target == "missing" { "dangling" } else if target.starts_with('.') { "reentrant" } else { "link" };
                out.push((p.clone(), kind));
            },
            FKind::Dir { readable, .. } => {
                if !*readable {
                    out.push((p.clone(), "unreadable"));
                }
                fault_paths(c, &p, out);
            },
            FKind::File => {},
        }
    }
}

fn is_beneath(e: &str, d: &str) -> bool {
    if d.is_empty() {
        !e.is_empty()
    }
    else {
        e.len() > d.len() && e.starts_with(d) && e.as_bytes()[d.len()] == b'/'
    }
}

/// Expected item sequence (with optional items) for a stack over a base walk.
fn expected_sequence(
    world: &World,
    base: &BaseWalk,
    follow: bool,
    layers: &[Layer],
    history: &History,
    models: &BTreeMap<usize, NotModel>,
) -> Option<Vec<SeqItem>> {
    let glob = match base {
        BaseWalk::Glob(g) => Glob::new(g).ok(),
        BaseWalk::Path => None,
    };
    // a glob with an invariant prefix is walked from the directory the prefix names: the
    // reference traversal starts there (cases where the prefix does not name a real directory of
    // the world are left out: what walkdir reports for a missing or non-directory root is not
    // part of the property)
    let prefix_comps: Vec<String> = glob
        .as_ref()
        .map(|g| g.clone().partition().0)
        .map(|p| p.components().map(|c| c.as_os_str().to_string_lossy().to_string()).collect())
        .unwrap_or_default();
    let start: Vec<usize> = if prefix_comps.is_empty() {
        vec![]
    }
    else {
        let comps: Vec<&str> = prefix_comps.iter().map(|s| s.as_str()).collect();
        let path = fsworld::find(world, &comps)?;
        // every directory above the traversal root must be readable, or the root cannot be reached
        for k in 0..path.len() {
            if !matches!(fsworld::node_at(world, &path[..k]).map(|n| &n.kind), Some(FKind::Dir { readable: true, .. })) {
                return None;
            }
        }
        match fsworld::node_at(world, &path).map(|n| &n.kind) {
            Some(FKind::Dir { .. }) => path,
            _ => return None,
        }
    };
    let unreadable_root = matches!(&world.root.kind, FKind::Dir { readable: false, .. });
    let mut unreadable: BTreeSet<String> = BTreeSet::new();
    {
        let mut fp = vec![];
        fault_paths(&world.root, "", &mut fp);
        for (p, k) in fp {
            if k == "unreadable" {
                unreadable.insert(p);
            }
        }
        if unreadable_root {
            unreadable.insert(String::new());
        }
    }
    let mut out = vec![];
    let mut cut: Vec<String> = vec![];
    for it in fsworld::traverse(world, &start, follow) {
        let at_traversal_root = it.rel().is_empty();
        let rel = prefix_comps.iter().cloned().chain(it.rel().iter().cloned()).collect::<Vec<_>>().join("/");
        let beneath = cut.iter().any(|d| is_beneath(&rel, d));
        match it {
            RItem::Entry { kind, .. } => {
                if beneath {
                    continue;
                }
                let mut keep = true;
                for (li, l) in layers.iter().enumerate() {
                    let v = match l {
                        Layer::Filter(id) => history.get(&(*id, rel.clone())).copied(),
                        Layer::Not(..) => models.get(&li).and_then(|m| m.installed(&rel)),
                    };
                    match v {
                        None => {},
                        Some(Verdict::File) => keep = false,
                        Some(Verdict::Tree) => {
                            keep = false;
                            if kind == EKind::Dir && !cut.contains(&rel) {
                                cut.push(rel.clone());
                            }
                        },
                    }
                }
                let base_ok = glob.as_ref().map_or(true, |g| g.is_match(rel.as_str()));
                if keep && base_ok {
                    out.push(SeqItem { ok: true, optional: at_traversal_root || unreadable.contains(&rel), rel, is_loop: false });
                }
            },
            RItem::Err { kind, .. } => {
                if beneath {
                    continue;
                }
                let at_cut = cut.contains(&rel);
                out.push(SeqItem { ok: false, rel, is_loop: kind == ErrKind::Loop, optional: at_cut });
            },
        }
    }
    Some(out)
}

/// No property fixes the order in which the children of a directory are visited, so the two
/// sequences are compared in a canonical order (pre-order with siblings by name, an entry before
/// the error naming the same path); that items are delivered *in place* is judged on the real
/// sequence itself: the items at or beneath any directory form one contiguous run (an error or
/// entry delivered late or early breaks a run).
fn compare_sequences(real: &[(bool, String, bool, usize)], expected: &[SeqItem], prefix_len: usize) -> Option<String> {
    {
        use std::collections::BTreeMap;
        let mut spans: BTreeMap<String, (usize, usize, usize)> = BTreeMap::new();
        for (i, r) in real.iter().enumerate() {
            if r.1 == "<no path>" {
                continue;
            }
            let comps: Vec<&str> = r.1.split('/').filter(|c| !c.is_empty()).collect();
            for k in 1..=comps.len() {
                let d = comps[..k].join("/");
                let e = spans.entry(d).or_insert((i, i, 0));
                e.0 = e.0.min(i);
                e.1 = e.1.max(i);
                e.2 += 1;
            }
        }
        let no_path = |lo: usize, hi: usize| real[lo..=hi].iter().filter(|r| r.1 == "<no path>").count();
        for (d, (lo, hi, n)) in &spans {
            if hi - lo + 1 != n + no_path(*lo, *hi) {
                return Some(format!("the items at and beneath {:?} are not delivered in one run (an item is out of place): {:?}", d, real.iter().map(show_real).collect::<Vec<_>>()));
            }
        }
    }
    let key = |rel: &str, ok: bool| -> (Vec<String>, bool) { (rel.split('/').filter(|c| !c.is_empty()).map(|c| c.to_string()).collect(), !ok) };
    // items without a path cannot be placed canonically: they are counted, the others are ordered
    let real_nopath = real.iter().filter(|r| r.1 == "<no path>").count();
    let exp_nopath_required = expected.iter().filter(|e| e.rel == "<no path>" && !e.optional).count();
    let exp_nopath_all = expected.iter().filter(|e| e.rel == "<no path>").count();
    if real_nopath < exp_nopath_required || real_nopath > exp_nopath_all {
        return Some(format!("{} error item(s) without a path where {}..={} are expected; observed {:?}", real_nopath, exp_nopath_required, exp_nopath_all, real.iter().map(show_real).collect::<Vec<_>>()));
    }
    let mut real_sorted: Vec<(bool, String, bool, usize)> = real.iter().filter(|r| r.1 != "<no path>").cloned().collect();
    real_sorted.sort_by_key(|r| key(&r.1, r.0));
    let mut expected_sorted: Vec<SeqItem> = expected.iter().filter(|e| e.rel != "<no path>").cloned().collect();
    expected_sorted.sort_by_key(|e| key(&e.rel, e.ok));
    let real = &real_sorted[..];
    let expected = &expected_sorted[..];
    let mut j = 0;
    for (i, r) in real.iter().enumerate() {
        loop {
            if j >= expected.len() {
                return Some(format!("item {} ({}) is not expected", i, show_real(r)));
            }
            let e = &expected[j];
            if e.ok == r.0 && e.rel == r.1 && (e.ok || e.is_loop == r.2) {
                j += 1;
                break;
            }
            if e.optional {
                j += 1;
                continue;
            }
            return Some(format!("item {} is {} where {} is expected", i, show_real(r), show_exp(e)));
        }
    }
    while j < expected.len() {
        if !expected[j].optional {
            return Some(format!("{} is missing", show_exp(&expected[j])));
        }
        j += 1;
    }
    // error depth = number of components of the offending path below the root of the traversal
    // (documented on WalkError::depth: "from the root directory of the traversal", which for a
    // glob with an invariant prefix is the given directory joined with that prefix)
    for r in real {
        if !r.0 && r.1 != "<no path>" {
            let comps = r.1.split('/').filter(|c| !c.is_empty()).count();
            if r.3 + prefix_len != comps {
                return Some(format!("{} reports depth {} but its path has {} component(s) below the root of the traversal", show_real(r), r.3, comps.saturating_sub(prefix_len)));
            }
        }
    }
    None
}

fn show_real(r: &(bool, String, bool, usize)) -> String {
    if r.0 {
        format!("Ok({:?})", r.1)
    }
    else {
        format!("Err({:?}{})", r.1, if r.2 { ", link cycle" } else { ", io" })
    }
}

fn show_exp(e: &SeqItem) -> String {
    if e.ok {
        format!("Ok({:?})", e.rel)
    }
    else {
        format!("Err({:?}{})", e.rel, if e.is_loop { ", link cycle" } else { ", io" })
    }
}

fn fault_worlds(tier: Tier, unreadable_ok: bool) -> Vec<World> {
    let base = fsworld::worlds(tier.pick(2, 3), &["a", "b"], 3);
    let mut seen: BTreeSet<String> = BTreeSet::new();
    let mut out = vec![];
    let mut add = |w: World, out: &mut Vec<World>| {
        if seen.insert(w.describe()) {
            out.push(w);
        }
    };
    for w in &base {
        add(w.clone(), &mut out);
        // one fault
        let mut singles: Vec<World> = vec![];
        for lw in fsworld::with_link(w, "l") {
            singles.push(lw);
        }
        if unreadable_ok {
            for uw in fsworld::with_unreadable(w) {
                singles.push(uw);
            }
        }
        for s in &singles {
            add(s.clone(), &mut out);
        }
        // two faults
        for s in &singles {
            if s.entries() > tier.pick(3, 3) {
                continue;
            }
            for lw in fsworld::with_link(s, "k") {
                add(lw, &mut out);
            }
            if unreadable_ok {
                for uw in fsworld::with_unreadable(s) {
                    add(uw, &mut out);
                }
            }
        }
    }
    out
}

fn link_targets_unreadable(_world: &World, _comps: &[String]) -> bool {
    false
}

fn c20_stacks(world: &World) -> Vec<(Vec<Layer>, History)> {
    let mut fp = vec![];
    fault_paths(&world.root, "", &mut fp);
    let mut out: Vec<(Vec<Layer>, History)> = vec![
        (vec![], History::new()),
        (vec![Layer::Not("zzz".into(), NotForm::Text)], History::new()),
        (vec![Layer::Not("**/b".into(), NotForm::Text)], History::new()),
        (vec![Layer::Not("a/**".into(), NotForm::Text)], History::new()),
        (vec![Layer::Filter(0)], History::new()),
        (vec![Layer::Not("**/b".into(), NotForm::Text), Layer::Filter(0)], History::new()),
        (vec![Layer::Filter(0), Layer::Not("a/**".into(), NotForm::Text)], History::new()),
    ];
    for (p, _) in fp.iter().take(2) {
        let esc = wax::escape(p).to_string();
        out.push((vec![Layer::Not(esc.clone(), NotForm::Text)], History::new()));
        out.push((vec![Layer::Not(format!("{}/**", esc), NotForm::Text)], History::new()));
        for v in [Verdict::File, Verdict::Tree] {
            let mut h = History::new();
            h.insert((0, p.clone()), v);
            out.push((vec![Layer::Filter(0)], h.clone()));
            out.push((vec![Layer::Filter(0), Layer::Not("**/a".into(), NotForm::Text)], h));
        }
        if let Some(i) = p.rfind('/') {
            let mut h = History::new();
            h.insert((0, p[..i].to_string()), Verdict::Tree);
            out.push((vec![Layer::Filter(0)], h));
        }
    }
    // the same directory discarded as a tree by two layers: nothing but that tree may disappear
    // (a second cancellation must not take the siblings read later - faulty ones included - away)
    let dirs: Vec<String> = crate::props_fs::all_entries(world).into_iter().filter(|(rel, is_dir)| *is_dir && !rel.is_empty()).map(|(rel, _)| rel).take(2).collect();
    for d in dirs {
        let esc = wax::escape(&d).to_string();
        let mut h = History::new();
        h.insert((0, d.clone()), Verdict::Tree);
        out.push((vec![Layer::Filter(0), Layer::Not(format!("{}/**", esc), NotForm::Text)], h.clone()));
        out.push((vec![Layer::Not(format!("{}/**", esc), NotForm::Text), Layer::Filter(0)], h.clone()));
        let mut h2 = h.clone();
        h2.insert((1, d.clone()), Verdict::Tree);
        out.push((vec![Layer::Filter(0), Layer::Filter(1)], h2));
        out.push((vec![Layer::Not(format!("{}/**", esc), NotForm::Text), Layer::Not(format!("{}/**", esc), NotForm::Compiled)], History::new()));
    }
    out
}

fn c20_case(world: &World, base: &BaseWalk, link: LinkBehavior, layers: &[Layer], history: &History) -> Value {
    let mut v = props_stack_case(world, base, layers, history);
    v["kind"] = json!("faultwalk");
    v["link"] = json!(link_name(link));
    v
}

fn props_stack_case(world: &World, base: &BaseWalk, layers: &[Layer], history: &History) -> Value {
    json!({
        "world": world_json(world),
        "base": match base { BaseWalk::Path => Value::Null, BaseWalk::Glob(g) => json!(g) },
        "layers": layers.iter().map(|l| layer_json(l)).collect::<Vec<_>>(),
        "history": history.iter().map(|((id, p), v)| json!({"filter": id, "entry": p, "verdict": match v { Verdict::File => "File", Verdict::Tree => "Tree" }})).collect::<Vec<_>>(),
    })
}

fn layer_json(l: &Layer) -> Value {
    match l {
        Layer::Filter(i) => json!({"filter": i}),
        Layer::Not(p, _) => json!({"not": p, "form": "text"}),
    }
}

fn judge_fault_run(
    place: &Place,
    world: &World,
    base: &BaseWalk,
    link: LinkBehavior,
    layers: &[Layer],
    history: &History,
) -> Result<Option<(String, Vec<(bool, String, bool, usize)>, Vec<SeqItem>)>, String> {
    let run = props_stack::execute_with(place, base, layers, history, link)?;
    let models: BTreeMap<usize, NotModel> = layers
        .iter()
        .enumerate()
        .filter_map(|(i, l)| if matches!(l, Layer::Not(..)) { NotModel::new(l).map(|m| (i, m)) } else { None })
        .collect();
    let Some(exp) = expected_sequence(world, base, link == LinkBehavior::ReadTarget, layers, history, &models) else {
        return Err("SKIP the invariant prefix does not name a directory of this world".to_string());
    };
    let prefix_len = match base {
        BaseWalk::Glob(g) => Glob::new(g).map_or(0, |g| g.partition().0.components().count()),
        BaseWalk::Path => 0,
    };
    if !run.io_conversion_lost.is_empty() {
        return Ok(Some((format!("an error item converted to io::Error no longer names the offending path: {}", run.io_conversion_lost.join("; ")), run.sequence.clone(), exp)));
    }
    // "pass error items through unchanged and in place" also when the outermost combinator is
    // consumed directly (its own `next` drives the walk) instead of beneath the logging filter
    if !layers.is_empty() && compare_sequences(&run.sequence, &exp, prefix_len).is_none() {
        if let Ok(bare) = props_stack::execute_bare(place, base, layers, history, link) {
            if let Some(diff) = props_stack::bare_difference(&run, &bare) {
                return Ok(Some((diff, bare.sequence.clone(), exp)));
            }
        }
    }
    Ok(compare_sequences(&run.sequence, &exp, prefix_len).map(|p| {
        // recorded finding: following a link to an unreadable directory yields one error item
        // WITHOUT a path instead of the link's entry and an error naming it
        let mut alt: Vec<SeqItem> = vec![];
        let mut used = false;
        let mut i = 0;
        while i < exp.len() {
            let e = &exp[i];
            let comps: Vec<String> = e.rel.split('/').filter(|c| !c.is_empty()).map(|c| c.to_string()).collect();
            let is_link = link == LinkBehavior::ReadTarget && fsworld::names_link(world, &comps);
            if is_link && !e.ok && !e.is_loop {
                // drop the link's own entry if it directly precedes its error
                if alt.last().map_or(false, |l: &SeqItem| l.ok && l.rel == e.rel) {
                    alt.pop();
                }
                alt.push(SeqItem { ok: false, rel: "<no path>".into(), is_loop: false, optional: e.optional });
                used = true;
            }
            else if is_link && e.ok && exp.get(i + 1).map_or(true, |n| !(n.rel == e.rel && !n.ok)) && link_targets_unreadable(world, &comps) {
                // the entry was filtered away by a layer but the error remains: handled above
                alt.push(e.clone());
            }
            else {
                alt.push(e.clone());
            }
            i += 1;
        }
        let class = if used && compare_sequences(&run.sequence, &alt, prefix_len).is_none() { "CLASS:error-without-path " } else { "" };
        (format!("{}{}", class, p), run.sequence.clone(), exp)
    }))
}

/// The exploration itself; prints protocol lines for the parent process.
pub fn c20_worker(tier: Tier) -> i32 {
    let unreadable_ok = unsafe { libc::geteuid() } != 0 && std::env::var("WAXMC_NO_UNREADABLE").is_err();
    let scratch = Scratch::new();
    let worlds = fault_worlds(tier, unreadable_ok);
    // the last one has an invariant prefix: the walk starts below the given directory
    let bases = vec![BaseWalk::Path, BaseWalk::Glob("**".into()), BaseWalk::Glob("**/a".into()), BaseWalk::Glob("a/**".into())];
    let out = std::sync::Mutex::new(Vec::<String>::new());
    let outcomes = std::sync::Mutex::new(BTreeSet::<u64>::new());
    worlds.par_iter().for_each(|world| {
        let mut c = Counters::new();
        let place = fswalk::place(&scratch, world);
        bump(&mut c, if place.order_ok { "orders_realised" } else { "orders_not_honoured" }, 1);
        let mut fp = vec![];
        fault_paths(&world.root, "", &mut fp);
        bump(&mut c, match fp.len() { 0 => "worlds_0_faults", 1 => "worlds_1_fault", _ => "worlds_2_faults" }, 1);
        let mut lines = vec![];
        let mut local = vec![];
        for base in &bases {
            for link in [LinkBehavior::ReadFile, LinkBehavior::ReadTarget] {
                let prefixed = matches!(base, BaseWalk::Glob(g) if g.starts_with("a/"));
                for (si, (layers, history)) in c20_stacks(world).into_iter().enumerate() {
                    // the prefixed walk is run with the plain stacks only
                    if prefixed && si >= 7 {
                        break;
                    }
                    match guard(|| judge_fault_run(&place, world, base, link, &layers, &history)) {
                        Ok(Ok(None)) => {
                            bump(&mut c, "walks", 1);
                        },
                        Ok(Ok(Some((problem, real, exp)))) => {
                            bump(&mut c, "walks", 1);
                            {
                                use std::hash::{Hash, Hasher};
                                let mut h = std::collections::hash_map::DefaultHasher::new();
                                real.hash(&mut h);
                                local.push(h.finish());
                            }
                            let (class, problem) = match problem.strip_prefix("CLASS:error-without-path ") {
                                Some(rest) => (json!("error-without-path-for-link-to-unreadable-directory"), rest.to_string()),
                                None => (Value::Null, problem),
                            };
                            let msg = format!(
                                "{} . [{}] ({}) in {}: {}; observed {:?}; expected {:?}",
                                base.describe(),
                                layers.iter().map(|l| l.describe()).collect::<Vec<_>>().join(" . "),
                                link_name(link),
                                world.describe(),
                                problem,
                                real.iter().map(show_real).collect::<Vec<_>>(),
                                exp.iter().map(|e| format!("{}{}", show_exp(e), if e.optional { "?" } else { "" })).collect::<Vec<_>>()
                            );
                            lines.push(format!(
                                "A {}",
                                json!({"class": class, "key": format!("{} {:?} {} {:?} {:?}", world.describe(), base, link_name(link), layers, history), "msg": msg,
                                       "case": c20_case(world, base, link, &layers, &history)})
                            ));
                        },
                        Ok(Err(msg)) if msg.starts_with("SKIP") => {
                            bump(&mut c, "skipped_prefix_not_a_directory", 1);
                        },
                        Ok(Err(msg)) | Err(msg) => {
                            lines.push(format!(
                                "A {}",
                                json!({"class": Value::Null, "key": format!("fail {} {:?} {} {:?}", world.describe(), base, link_name(link), layers), "msg": format!("walk in {} fails: {}", world.describe(), msg),
                                       "case": c20_case(world, base, link, &layers, &history)})
                            ));
                        },
                    }
                }
            }
        }
        // distinct observed sequences (vacuity guard): hash of the plain path walk under both behaviours
        for link in [LinkBehavior::ReadFile, LinkBehavior::ReadTarget] {
            if let Ok(r) = props_stack::execute_with(&place, &BaseWalk::Path, &[], &History::new(), link) {
                use std::hash::{Hash, Hasher};
                let mut h = std::collections::hash_map::DefaultHasher::new();
                r.sequence.hash(&mut h);
                local.push(h.finish());
            }
        }
        for (k, v) in &c {
            lines.push(format!("C {} {}", k, v));
        }
        out.lock().unwrap().extend(lines);
        outcomes.lock().unwrap().extend(local);
        drop(place);
    });
    drop(scratch);
    let lines = out.into_inner().unwrap();
    for l in lines {
        println!("{}", l);
    }
    println!("C worlds {}", worlds.len());
    println!("O {}", outcomes.lock().unwrap().len());
    println!("U {}", if unreadable_ok { 1 } else { 0 });
    for w in worlds.iter().rev().take(4) {
        println!("S {}", json!(w.describe()));
    }
    println!("DONE");
    0
}

pub fn c20(tier: Tier) -> i32 {
    let rep = Report::new("C20", tier, "fault_enumeration");
    let exe = std::env::current_exe().unwrap_or_else(|_| "/verif/engine/target/release/waxmc".into());
    let is_root = unsafe { libc::geteuid() } == 0;
    let run_child = |privdrop: bool| -> Option<String> {
        let mut cmd = if privdrop {
            let mut c = std::process::Command::new("setpriv");
            c.args(["--reuid=65534", "--regid=65534", "--clear-groups"]).arg(&exe);
            c
        }
        else {
            std::process::Command::new(&exe)
        };
        cmd.arg("C20-worker").arg("--tier").arg(tier.name());
        if !privdrop && is_root {
            cmd.env("WAXMC_NO_UNREADABLE", "1");
        }
        cmd.current_dir("/");
        let out = cmd.output().ok()?;
        let text = String::from_utf8_lossy(&out.stdout).to_string();
        if !text.contains("\nDONE") && !text.starts_with("DONE") {
            eprintln!("worker stderr: {}", String::from_utf8_lossy(&out.stderr));
            return None;
        }
        Some(text)
    };
    let text = if is_root {
        match run_child(true) {
            Some(t) => t,
            None => {
                rep.note("privilege drop with setpriv failed: unreadable-directory faults are SKIPPED in this run".into());
                match run_child(false) {
                    Some(t) => t,
                    None => crate::common::machinery_failure("C20 worker failed"),
                }
            },
        }
    }
    else {
        match run_child(false) {
            Some(t) => t,
            None => crate::common::machinery_failure("C20 worker failed"),
        }
    };
    let mut distinct = 0u64;
    let mut samples = vec![];
    let mut unreadable = false;
    for line in text.lines() {
        if let Some(rest) = line.strip_prefix("A ") {
            if let Ok(v) = serde_json::from_str::<Value>(rest) {
                rep.alarm(Alarm {
                    class: v["class"].as_str().map(|s| s.to_string()),
                    key: v["key"].as_str().unwrap_or("").to_string(),
                    msg: v["msg"].as_str().unwrap_or("").to_string(),
                    case: v["case"].clone(),
                });
            }
        }
        else if let Some(rest) = line.strip_prefix("C ") {
            let mut it = rest.split(' ');
            if let (Some(k), Some(n)) = (it.next(), it.next()) {
                rep.add(k, n.parse().unwrap_or(0));
            }
        }
        else if let Some(rest) = line.strip_prefix("O ") {
            distinct = rest.parse().unwrap_or(0);
        }
        else if let Some(rest) = line.strip_prefix("U ") {
            unreadable = rest == "1";
        }
        else if let Some(rest) = line.strip_prefix("S ") {
            if let Ok(v) = serde_json::from_str::<Value>(rest) {
                samples.push(v);
            }
        }
    }
    rep.add("unreadable_directory_faults_exercised", if unreadable { 1 } else { 0 });
    let walks = rep.get("walks");
    rep.finish(
        json!({
            "evaluations": walks,
            "distinct_nontrivial": distinct,
            "rule": format!("every link-free world with <= {} entries over {{a,b}} (all child orders) with every placement of at most two faults among unreadable directory (every directory, the root included; run under uid 65534), dangling link and re-entrant link (`.`, `..`, `../..`) plus links to siblings, at every position x 3 underlying walks x both link behaviours x combinator stacks aimed at the faulty paths; the complete item sequence (entries and errors, in order, with paths and depths) is compared with the reference traversal; distinct_nontrivial = distinct observed item sequences", tier.pick(2, 3)),
            "samples": samples,
            "exhaustive": true,
            "unreadable_faults_exercised": unreadable,
        }),
        vec![
            "walkdir / tmpfs behave as documented; permission faults need an unprivileged uid (setpriv)".into(),
            "whether the entry of an unreadable directory itself is yielded is left open; an error at a directory that a layer discards as a tree may be absent".into(),
        ],
    )
}

pub fn replay_faultwalk(case: &Value) -> bool {
    // must run unprivileged for unreadable directories
    if unsafe { libc::geteuid() } == 0 && std::env::var("WAXMC_REPLAY_CHILD").is_err() && case["world"].to_string().contains("\"r\":false") {
        let exe = std::env::current_exe().unwrap();
        // the replay file must be readable by the unprivileged child: pass the case on stdin
        let tmp = format!("/dev/shm/waxmc-replay-{}.json", std::process::id());
        let _ = std::fs::write(&tmp, case.to_string());
        use std::os::unix::fs::PermissionsExt;
        let _ = std::fs::set_permissions(&tmp, std::fs::Permissions::from_mode(0o644));
        let st = std::process::Command::new("setpriv")
            .args(["--reuid=65534", "--regid=65534", "--clear-groups"])
            .arg(&exe)
            .args(["C20", "--replay", &tmp])
            .env("WAXMC_REPLAY_CHILD", "1")
            .current_dir("/")
            .status();
        let _ = std::fs::remove_file(&tmp);
        return st.map_or(false, |s| s.code() == Some(1));
    }
    let world = world_from_json(&case["world"]);
    let base = match case["base"].as_str() {
        Some(g) => BaseWalk::Glob(g.to_string()),
        None => BaseWalk::Path,
    };
    let link = link_from(case["link"].as_str().unwrap_or("ReadFile"));
    let layers: Vec<Layer> = case["layers"]
        .as_array()
        .map(|a| {
            a.iter()
                .map(|v| match v["filter"].as_u64() {
                    Some(i) => Layer::Filter(i as usize),
                    None => Layer::Not(v["not"].as_str().unwrap_or("").to_string(), NotForm::Text),
                })
                .collect()
        })
        .unwrap_or_default();
    let mut history = History::new();
    for h in case["history"].as_array().cloned().unwrap_or_default() {
        history.insert(
            (h["filter"].as_u64().unwrap_or(0) as usize, h["entry"].as_str().unwrap_or("").to_string()),
            if h["verdict"].as_str() == Some("Tree") { Verdict::Tree } else { Verdict::File },
        );
    }
    let scratch = Scratch::new();
    let place = fswalk::place(&scratch, &world);
    println!("world {} (readdir order honoured: {}; uid {})", world.describe(), place.order_ok, unsafe { libc::geteuid() });
    match judge_fault_run(&place, &world, &base, link, &layers, &history) {
        Err(msg) => {
            println!("walk fails: {}", msg);
            true
        },
        Ok(None) => {
            println!("item sequence equals the reference");
            false
        },
        Ok(Some((problem, real, exp))) => {
            println!("  observed: {:?}", real.iter().map(show_real).collect::<Vec<_>>());
            println!("  expected: {:?}", exp.iter().map(|e| format!("{}{}", show_exp(e), if e.optional { "?" } else { "" })).collect::<Vec<_>>());
            println!("  {}", problem);
            true
        },
    }
}
