//! Real walks over worlds built on tmpfs, and capture of what they yield.

use refmodel::fsworld::{self, World};
use std::path::{Path, PathBuf};
use std::sync::atomic::{AtomicUsize, Ordering};
use wax::walk::{Entry, FileIterator, GlobEntry};

pub struct Scratch {
    pub root: PathBuf,
}

impl Scratch {
    /// Creates the per-process scratch root and makes it the (constant) working directory so
    /// that relative base spellings can be used from every thread.
    pub fn new() -> Scratch {
        let base = if Path::new("/dev/shm").is_dir() { PathBuf::from("/dev/shm") } else { std::env::temp_dir() };
        let root = base.join(format!("waxmc-{}", std::process::id()));
        let _ = std::fs::remove_dir_all(&root);
        std::fs::create_dir_all(&root).expect("scratch root");
        std::env::set_current_dir(&root).expect("chdir scratch");
        Scratch { root }
    }
}

impl Drop for Scratch {
    fn drop(&mut self) {
        let _ = std::env::set_current_dir("/");
        // restore permissions of anything left behind
        fn fix(p: &Path) {
            use std::os::unix::fs::PermissionsExt;
            if let Ok(md) = std::fs::symlink_metadata(p) {
                if md.is_dir() {
                    let _ = std::fs::set_permissions(p, std::fs::Permissions::from_mode(0o755));
                    if let Ok(rd) = std::fs::read_dir(p) {
                        for e in rd.flatten() {
                            fix(&e.path());
                        }
                    }
                }
            }
        }
        fix(&self.root);
        let _ = std::fs::remove_dir_all(&self.root);
    }
}

static NEXT_SLOT: AtomicUsize = AtomicUsize::new(0);

thread_local! {
    static SLOT: usize = NEXT_SLOT.fetch_add(1, Ordering::Relaxed);
}

/// A built world: absolute and relative spellings of the tree root.
pub struct Place {
    pub built: fsworld::Built,
    /// absolute path of the tree root
    pub abs: PathBuf,
    /// the same directory relative to the working directory
    pub rel: PathBuf,
    pub order_ok: bool,
}

impl Drop for Place {
    fn drop(&mut self) {
        self.built.cleanup();
    }
}

pub fn place(scratch: &Scratch, world: &World) -> Place {
    let slot = SLOT.with(|s| *s);
    let dirname = format!("w{}", slot);
    let dir = scratch.root.join(&dirname);
    let _ = std::fs::create_dir_all(&dir);
    // make sure nothing is left from a previous world
    let t = dir.join("t");
    if t.exists() {
        let _ = std::fs::remove_dir_all(&t);
    }
    let built = fsworld::build(world, &dir).expect("build world");
    let order_ok = fsworld::order_honoured(&world.root, &built.root);
    Place { abs: built.root.clone(), rel: PathBuf::from(dirname).join("t"), built, order_ok }
}

#[derive(Clone, Debug, PartialEq, Eq)]
pub struct GotEntry {
    pub path: PathBuf,
    pub root: PathBuf,
    pub rel: PathBuf,
    pub depth: usize,
    pub is_dir: bool,
    pub is_symlink: bool,
    pub matched: Option<String>,
    pub candidate: Option<String>,
}

#[derive(Clone, Debug, PartialEq, Eq)]
pub enum Got {
    Ok(GotEntry),
    Err { path: Option<PathBuf>, depth: usize, is_loop: bool },
}

impl Got {
    pub fn path(&self) -> Option<&Path> {
        match self {
            Got::Ok(e) => Some(&e.path),
            Got::Err { path, .. } => path.as_deref(),
        }
    }
}

pub fn capture_entry(e: &dyn Entry) -> GotEntry {
    let (root, rel) = e.root_relative_paths();
    GotEntry {
        path: e.path().to_path_buf(),
        root: root.to_path_buf(),
        rel: rel.to_path_buf(),
        depth: e.depth(),
        is_dir: e.file_type().is_dir(),
        is_symlink: e.file_type().is_symlink(),
        matched: None,
        candidate: None,
    }
}

fn capture_err(e: &wax::walk::WalkError) -> Got {
    let text = format!("{}", e);
    Got::Err { path: e.path().map(|p| p.to_path_buf()), depth: e.depth(), is_loop: text.contains("cycle") }
}

/// Collects a walk; returns None if more than `cap` items are produced (non-termination guard).
pub fn collect<I>(it: I, cap: usize) -> Option<Vec<Got>>
where
    I: FileIterator,
{
    let mut out = vec![];
    for item in it {
        if out.len() >= cap {
            return None;
        }
        match item {
            Ok(e) => out.push(Got::Ok(capture_entry(&e))),
            Err(err) => out.push(capture_err(&err)),
        }
    }
    Some(out)
}

pub fn collect_glob<I>(it: I, cap: usize) -> Option<Vec<Got>>
where
    I: FileIterator<Entry = GlobEntry>,
{
    let mut out = vec![];
    for item in it {
        if out.len() >= cap {
            return None;
        }
        match item {
            Ok(e) => {
                let mut g = capture_entry(&e);
                g.matched = Some(e.matched().complete().to_string());
                g.candidate = Some(e.to_candidate_path().as_ref().to_string());
                out.push(Got::Ok(g));
            },
            Err(err) => out.push(capture_err(&err)),
        }
    }
    Some(out)
}

/// The path of an item relative to the given base directory, as `/`-joined text (None if it is
/// not beneath the base).
pub fn rel_text(path: &Path, base: &Path) -> Option<String> {
    let r = path.strip_prefix(base).ok()?;
    Some(r.components().map(|c| c.as_os_str().to_string_lossy().to_string()).collect::<Vec<_>>().join("/"))
}
