//! Binding between wax programs and their automaton models.

use refmodel::automata::{self, Dfa, Explored, Monitor};
use std::collections::BTreeMap;
use wax::{Any, Glob, Program};

use crate::common::guard;

pub enum Built<'t> {
    Ok(Glob<'t>),
    Err(String),
    Panic(String),
}

pub fn build(text: &str) -> Built<'_> {
    match guard(|| Glob::new(text)) {
        Ok(Ok(g)) => Built::Ok(g),
        Ok(Err(e)) => Built::Err(format!("{}", e)),
        Err(p) => Built::Panic(p),
    }
}

pub fn build_ok(text: &str) -> Option<Glob<'_>> {
    match build(text) {
        Built::Ok(g) => Some(g),
        _ => None,
    }
}

pub fn dfa_of_glob(g: &Glob<'_>) -> Result<Dfa, String> {
    Dfa::new_search(g.verif_program_text())
}

pub fn dfa_of_any(a: &Any<'_>) -> Result<Dfa, String> {
    Dfa::new_search(a.verif_program_text())
}

/// Replays the access string of every explored state through the real matchers and compares
/// with the DFA's acceptance. Returns (validated, mismatches).
pub fn validate_binding<S>(
    ex: &Explored<S>,
    dfas: &[&Dfa],
    real: &[&dyn Fn(&str) -> bool],
) -> (u64, Vec<String>) {
    let mut validated = 0u64;
    let mut mismatches = vec![];
    // access strings computed incrementally: parent index < child index in BFS order
    let mut strings: Vec<String> = Vec::with_capacity(ex.states.len());
    for i in 0..ex.states.len() {
        let s = if ex.parent[i].0 == u32::MAX {
            String::new()
        }
        else {
            let mut p = strings[ex.parent[i].0 as usize].clone();
            p.push(ex.parent[i].1);
            p
        };
        strings.push(s);
    }
    for (i, (t, _)) in ex.states.iter().enumerate() {
        for (k, d) in dfas.iter().enumerate() {
            if k >= real.len() {
                break;
            }
            let model = automata::acc(dfas, t, k);
            let _ = d;
            let r = guard(|| real[k](&strings[i]));
            match r {
                Ok(r) => {
                    validated += 1;
                    if r != model {
                        mismatches.push(format!(
                            "program {} on {:?}: real={} model={}",
                            k, strings[i], r, model
                        ));
                    }
                },
                Err(p) => mismatches.push(format!("panic in is_match on {:?}: {}", strings[i], p)),
            }
        }
    }
    // every other explored transition: the string that takes it must be answered like its target
    // state (a matcher that is not a function of the automaton state - a pre-filter on the
    // candidate, say - shows here even when every state's own access string agrees)
    for (from, ch, to) in ex.cross.iter() {
        let mut s = strings[*from as usize].clone();
        s.push(*ch);
        let t = &ex.states[*to as usize].0;
        for k in 0..dfas.len().min(real.len()) {
            let model = automata::acc(dfas, t, k);
            match guard(|| real[k](&s)) {
                Ok(r) => {
                    validated += 1;
                    if r != model {
                        mismatches.push(format!("program {} on {:?}: real={} model={}", k, s, r, model));
                    }
                },
                Err(p) => mismatches.push(format!("panic in is_match on {:?}: {}", s, p)),
            }
        }
    }
    (validated, mismatches)
}

pub fn access_strings<S>(ex: &Explored<S>) -> Vec<String> {
    let mut strings: Vec<String> = Vec::with_capacity(ex.states.len());
    for i in 0..ex.states.len() {
        let s = if ex.parent[i].0 == u32::MAX {
            String::new()
        }
        else {
            let mut p = strings[ex.parent[i].0 as usize].clone();
            p.push(ex.parent[i].1);
            p
        };
        strings.push(s);
    }
    strings
}

/// Local (per task) counters, merged into the report at the end of the task.
pub type Counters = BTreeMap<&'static str, u64>;

pub fn bump(c: &mut Counters, k: &'static str, n: u64) {
    *c.entry(k).or_insert(0) += n;
}

pub fn explore_counted<M: Monitor>(
    c: &mut Counters,
    dfas: &[&Dfa],
    mon: &M,
    alphabet: &[char],
) -> Explored<M::S> {
    let ex = automata::explore(dfas, mon, alphabet, 2_000_000);
    bump(c, "models", 1);
    bump(c, "states", ex.states.len() as u64);
    bump(c, "transitions", ex.transitions);
    if ex.capped {
        bump(c, "models_capped", 1);
    }
    ex
}

pub fn glob_matcher<'a>(g: &'a Glob<'_>) -> impl Fn(&str) -> bool + 'a {
    move |p: &str| g.is_match(p)
}

pub fn any_matcher<'a>(a: &'a Any<'_>) -> impl Fn(&str) -> bool + 'a {
    move |p: &str| a.is_match(p)
}
