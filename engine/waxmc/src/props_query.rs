//! C09 (exhaustiveness), C10 (depth), C11 (invariant text), C12 (root / semantic literals):
//! queries checked against the implementation's automaton on all (canonical) paths.

use rayon::prelude::*;
use refmodel::automata::{self, canon_init, canon_step, CanonState, Dfa, Monitor};
use refmodel::syntax::{self, Kind, Node, Seq};
use serde_json::json;
use std::sync::Mutex;
use wax::query::{DepthVariance, TextVariance, When};
use wax::{Any, Glob, Program};

use crate::common::{guard, Alarm, Report, Tier};
use crate::model::{self, bump, Built, Counters};
use crate::space::{self, Expr, SpaceOpts};

// ---------------------------------------------------------------------------------------------
// shared: iterate over built globs and over `any` combinations
// ---------------------------------------------------------------------------------------------

pub fn for_each_glob(rep: &Report, opts: &SpaceOpts, f: &(dyn Fn(&Expr, &Glob<'_>, &mut Counters) + Sync)) {
    let n = space::for_each_expr(opts, &|e: &Expr| {
        let mut c = Counters::new();
        match model::build(&e.text) {
            Built::Ok(g) => {
                bump(&mut c, "built", 1);
                if let Err(p) = guard(|| f(e, &g, &mut c)) {
                    bump(&mut c, "skipped_panics", 1);
                    let _ = p;
                }
                // the partitioned glob is a transformed token tree, not a glob built from text:
                // it is visited as a program of its own (its own automaton and its own answers)
                // whenever a prefix was really removed and its displayed text describes it (the
                // glob rebuilt from that text has the same program; C08 judges the others)
                if let Ok((prefix, Some(post))) = guard(|| g.clone().partition()) {
                    if !prefix.as_os_str().is_empty() {
                        let ptext = post.to_string();
                        if let (Ok(ast), Some(rebuilt)) = (syntax::parse(&ptext), model::build_ok(&ptext)) {
                            if rebuilt.verif_program_text() == post.verif_program_text() {
                                bump(&mut c, "partitioned_globs_visited", 1);
                                let pe = Expr { text: ptext.clone(), ast, pass: "partition" };
                                if guard(|| f(&pe, &post, &mut c)).is_err() {
                                    bump(&mut c, "skipped_panics", 1);
                                }
                            }
                        }
                    }
                }
            },
            Built::Err(_) => bump(&mut c, "rejected", 1),
            Built::Panic(_) => bump(&mut c, "skipped_panics", 1),
        }
        rep.merge(&c);
    });
    rep.add("programs_enumerated", n);
}

/// Pool of small built expressions for `any` combinations.
pub fn any_pool(max_size: usize) -> Vec<String> {
    let g = refmodel::gen::Gen::new(refmodel::gen::GenCfg::core(), max_size.max(1));
    let mut out = vec![String::new()];
    for size in 1..=max_size {
        g.for_each_exact(size, &mut |s: &Seq| {
            if refmodel::gen::is_letter_canonical(s) || size == 1 {
                let t = syntax::to_text(s);
                if model::build_ok(&t).is_some() {
                    out.push(t);
                }
            }
        });
    }
    out.sort();
    out.dedup();
    out
}

/// Runs `f` over combinators `any([..])` of up to three pool members.
pub fn for_each_any(
    rep: &Report,
    tier: Tier,
    f: &(dyn Fn(&[&str], &Any<'_>, &mut Counters) + Sync),
) {
    let pool2 = any_pool(2);
    let pool1 = any_pool(1);
    let pool3 = if tier == Tier::Thorough { any_pool(3) } else { vec![] };
    let mut combos: Vec<Vec<&str>> = vec![];
    for a in &pool2 {
        combos.push(vec![a.as_str()]);
    }
    for (i, a) in pool2.iter().enumerate() {
        for b in pool2.iter().skip(i + 1) {
            combos.push(vec![a.as_str(), b.as_str()]);
        }
    }
    for (i, a) in pool1.iter().enumerate() {
        for (j, b) in pool1.iter().enumerate().skip(i + 1) {
            for c in pool1.iter().skip(j + 1) {
                combos.push(vec![a.as_str(), b.as_str(), c.as_str()]);
            }
        }
    }
    for a in &pool3 {
        for b in &pool1 {
            combos.push(vec![a.as_str(), b.as_str()]);
        }
    }
    rep.add("any_combinations", combos.len() as u64);
    // nested combinators: any([any([x]), any([y, z])]) and any([any([x, y]), any([z])]) over a
    // tiny pool (a flat combinator of the same members is in the list above)
    let tiny: Vec<&str> = ["", "a", "b", "?", "[ab]", "*", "/", "a/**", "b/**", "**/a", "**", "a/b", "<a/>"]
        .into_iter()
        .filter(|t| model::build_ok(t).is_some())
        .collect();
    let mut nested: Vec<(Vec<&str>, Vec<&str>)> = vec![];
    for x in &tiny {
        for y in &tiny {
            for z in &tiny {
                nested.push((vec![*x], vec![*y, *z]));
                nested.push((vec![*x, *y], vec![*z]));
            }
        }
    }
    rep.add("nested_any_combinations", nested.len() as u64);
    nested.par_iter().for_each(|(left, right)| {
        let mut c = Counters::new();
        let built = guard(|| -> Option<Any<'_>> {
            let l = wax::any(left.iter().copied()).ok()?;
            let r = wax::any(right.iter().copied()).ok()?;
            wax::any([l, r]).ok()
        });
        match built {
            Ok(Some(any)) => {
                bump(&mut c, "nested_any_built", 1);
                let flat: Vec<&str> = left.iter().chain(right.iter()).copied().collect();
                if guard(|| f(&flat, &any, &mut c)).is_err() {
                    bump(&mut c, "skipped_panics", 1);
                }
            },
            Ok(None) => bump(&mut c, "any_rejected", 1),
            Err(_) => bump(&mut c, "skipped_panics", 1),
        }
        rep.merge(&c);
    });
    combos.par_iter().for_each(|combo| {
        let mut c = Counters::new();
        match guard(|| wax::any(combo.iter().copied())) {
            Ok(Ok(any)) => {
                bump(&mut c, "any_built", 1);
                if guard(|| f(combo, &any, &mut c)).is_err() {
                    bump(&mut c, "skipped_panics", 1);
                }
            },
            Ok(Err(_)) => bump(&mut c, "any_rejected", 1),
            Err(_) => bump(&mut c, "skipped_panics", 1),
        }
        rep.merge(&c);
    });
}

fn when_str(w: When) -> &'static str {
    match w {
        When::Always => "Always",
        When::Sometimes => "Sometimes",
        When::Never => "Never",
    }
}

// ---------------------------------------------------------------------------------------------
// Monitors
// ---------------------------------------------------------------------------------------------

/// Canonical paths + "some proper canonical ancestor was accepted by a watched DFA".
pub struct AncMon {
    pub watch: u32,
    pub sat: u8,
}

impl Monitor for AncMon {
    type S = (CanonState, bool);
    fn init(&self) -> Self::S {
        (canon_init(), false)
    }
    fn step(&self, s: &Self::S, accs: u32, c: char) -> Option<Self::S> {
        let (cs, anc) = *s;
        let ncs = canon_step(&cs, c, self.sat)?;
        let mut nanc = anc;
        if cs.is_canonical_end() && (accs & self.watch) != 0 {
            let p_empty = cs.phase == 0;
            let p_root = cs.phase == 1;
            if p_empty || p_root {
                if c != '/' {
                    nanc = true;
                }
            }
            else if c == '/' {
                nanc = true;
            }
        }
        Some((ncs, nanc))
    }
}

/// Canonical paths with a saturating component counter.
pub struct CanonMon {
    pub sat: u8,
}

impl Monitor for CanonMon {
    type S = CanonState;
    fn init(&self) -> CanonState {
        canon_init()
    }
    fn step(&self, s: &CanonState, _: u32, c: char) -> Option<CanonState> {
        canon_step(s, c, self.sat)
    }
}

/// Position in a fixed text: Some(i) = the first i characters of the text have been read,
/// None = diverged from the text.
pub struct TextMon {
    pub text: Vec<char>,
}

impl Monitor for TextMon {
    type S = Option<u32>;
    fn init(&self) -> Option<u32> {
        Some(0)
    }
    fn step(&self, s: &Option<u32>, _: u32, c: char) -> Option<Option<u32>> {
        Some(match s {
            Some(i) if (*i as usize) < self.text.len() && self.text[*i as usize] == c => Some(i + 1),
            _ => None,
        })
    }
}

/// First character: 0 = empty, 1 = starts with separator, 2 = starts with something else.
pub struct FirstMon;

impl Monitor for FirstMon {
    type S = u8;
    fn init(&self) -> u8 {
        0
    }
    fn step(&self, s: &u8, _: u32, c: char) -> Option<u8> {
        Some(match s {
            0 => {
                if c == '/' {
                    1
                }
                else {
                    2
                }
            },
            x => *x,
        })
    }
}

/// Returns true when the automaton is NOT bound to the real matcher for this program (some explored
/// access string is answered differently by `is_match` and by the compiled pattern): the caller
/// then decides the property for this program by bounded enumeration through the public API.
fn finish_binding(rep: &Report, c: &mut Counters, what: &str, validated: u64, mism: Vec<String>) -> bool {
    bump(c, "traces_validated_against_impl", validated);
    if !mism.is_empty() {
        bump(c, "binding_mismatches", mism.len() as u64);
        bump(c, "programs_decided_by_bounded_enumeration", 1);
        rep.note(format!("binding mismatch for {}: {} (decided by bounded enumeration through is_match instead)", what, mism[0]));
        return true;
    }
    false
}

/// All strings over the alphabet up to the largest length L <= 5 with |A|^L <= 300 000 (at least 2).
fn fallback_paths(alphabet: &[char]) -> Vec<String> {
    let n = alphabet.len().max(1) as u64;
    let mut len = 2usize;
    while len < 5 && n.pow(len as u32 + 1) <= 300_000 {
        len += 1;
    }
    let mut out = vec![String::new()];
    let mut level = vec![String::new()];
    for _ in 0..len {
        let mut next = Vec::with_capacity(level.len() * alphabet.len());
        for s in &level {
            for ch in alphabet {
                let mut t = s.clone();
                t.push(*ch);
                next.push(t);
            }
        }
        out.extend(next.iter().cloned());
        level = next;
        if out.len() > 400_000 {
            break;
        }
    }
    out
}

/// canonical path: no empty component, no `.` component; returns (rooted, components)
fn canonical_shape(p: &str) -> Option<(bool, usize)> {
    if p.is_empty() {
        return Some((false, 0));
    }
    if p == "/" {
        return Some((true, 0));
    }
    let rooted = p.starts_with('/');
    let body = if rooted { &p[1..] } else { p };
    let mut n = 0;
    for comp in body.split('/') {
        if comp.is_empty() || comp == "." {
            return None;
        }
        n += 1;
    }
    Some((rooted, n))
}

// ---------------------------------------------------------------------------------------------
// C09
// ---------------------------------------------------------------------------------------------

/// The longest proper canonical ancestor of `q` that the real matcher accepts.
fn accepted_ancestor(q: &str, is_match: &dyn Fn(&str) -> bool) -> Option<String> {
    let mut cands: Vec<String> = vec![];
    // proper canonical ancestors: prefixes ending right before a separator, plus "" and "/"
    let bytes = q.as_bytes();
    for (i, b) in bytes.iter().enumerate() {
        if *b == b'/' && i > 0 {
            cands.push(q[..i].to_string());
        }
    }
    if q.starts_with('/') {
        if q.len() > 1 {
            cands.push("/".to_string());
        }
    }
    else if !q.is_empty() {
        cands.push(String::new());
    }
    cands.sort_by_key(|c| std::cmp::Reverse(c.len()));
    cands.into_iter().find(|p| is_match(p))
}

fn last_token_through_wrappers(seq: &[Node]) -> Option<&Node> {
    let toks: Vec<&Node> = seq.iter().filter(|n| !n.is_flag()).collect();
    let last = *toks.last()?;
    Some(last)
}

fn can_cross_components(seq: &[Node]) -> bool {
    seq.iter().any(|n| match &n.kind {
        Kind::Sep | Kind::Tree { .. } => true,
        Kind::Alt(bs) => bs.iter().any(|b| can_cross_components(b)),
        Kind::Rep { body, .. } => can_cross_components(body),
        _ => false,
    })
}

fn has_unbounded_tail(seq: &[Node]) -> bool {
    // does the sequence end (through branches) in a tree wildcard?
    match last_token_through_wrappers(seq) {
        None => false,
        Some(n) => match &n.kind {
            Kind::Tree { .. } => true,
            Kind::Alt(bs) => bs.iter().all(|b| has_unbounded_tail(b)),
            Kind::Rep { body, .. } => has_unbounded_tail(body),
            _ => false,
        },
    }
}

/// The tail of a concatenation as the exhaustiveness fold scans it: the maximal suffix of
/// top-level tokens that are separators, zero-or-more / tree wildcards or branch tokens.
fn tail_has_branch(seq: &[Node]) -> bool {
    for n in seq.iter().rev() {
        match &n.kind {
            Kind::Flag(_) => continue,
            Kind::Alt(_) | Kind::Rep { .. } => return true,
            Kind::Sep | Kind::Zom(_) | Kind::Tree { .. } => continue,
            _ => return false,
        }
    }
    false
}

/// The alternatives a negation pattern is split into before partitioning (mirrors the
/// documented behaviour of `not`: trivial wrappers are collapsed, top-level alternations are
/// flattened).
pub fn alternatives_of(seq: &Seq) -> Vec<Seq> {
    let toks: Vec<&Node> = seq.iter().filter(|n| !n.is_flag()).collect();
    if toks.len() == 1 && seq.len() == 1 {
        match &toks[0].kind {
            Kind::Alt(bs) => return bs.iter().flat_map(alternatives_of).collect(),
            Kind::Rep { body, bounds } if bounds.values() == Some((1, Some(1))) => return alternatives_of(body),
            _ => {},
        }
    }
    vec![seq.clone()]
}

/// Does some alternative of the patterns CLAIM to be always exhaustive and match `ancestor`?
/// (The recorded exhaustiveness findings are about such claims; a tree discard without a claim
/// is a different defect.) Unknown (an alternative does not build on its own) counts as yes.
pub fn some_alternative_claims_always(asts: &[Seq], ancestor: &str) -> bool {
    for ast in asts {
        for alt in alternatives_of(ast) {
            let text = syntax::to_text(&alt);
            match model::build_ok(&text) {
                None => return true,
                Some(g) => {
                    if g.is_exhaustive() == When::Always && g.is_match(ancestor) {
                        return true;
                    }
                },
            }
        }
    }
    false
}

fn contains_tree(seq: &[Node]) -> bool {
    seq.iter().any(|n| match &n.kind {
        Kind::Tree { .. } => true,
        Kind::Alt(bs) => bs.iter().any(|b| contains_tree(b)),
        Kind::Rep { body, .. } => contains_tree(body),
        _ => false,
    })
}

fn contains_open_crossing_repetition(seq: &[Node]) -> bool {
    seq.iter().any(|n| match &n.kind {
        Kind::Alt(bs) => bs.iter().any(|b| contains_open_crossing_repetition(b)),
        Kind::Rep { body, bounds } => {
            (bounds.values().map_or(false, |(_, hi)| hi.is_none()) && can_cross_components(body)) || contains_open_crossing_repetition(body)
        },
        _ => false,
    })
}

fn tail_has_unbounded_depth_source(seq: &[Node]) -> bool {
    let mut tail: Vec<&Node> = vec![];
    for n in seq.iter().rev() {
        match &n.kind {
            Kind::Flag(_) => continue,
            Kind::Alt(_) | Kind::Rep { .. } | Kind::Sep | Kind::Zom(_) | Kind::Tree { .. } => tail.push(n),
            _ => break,
        }
    }
    tail.iter().any(|n| contains_tree(std::slice::from_ref(*n)) || contains_open_crossing_repetition(std::slice::from_ref(*n)))
}

/// True if the encoder's mirror (reference language with the recorded deviations D1 and D4) is
/// defined for this single expression and answers differently from the implementation on one of
/// the paths. Combinators and expressions the mirror does not define are not judged (false).
pub fn mirror_disagrees(asts: &[Seq], paths: &[&str], is_match: &dyn Fn(&str) -> bool) -> bool {
    if asts.len() != 1 {
        return false;
    }
    let dev = refmodel::lang::Deviations { d1: true, d2: false, d3: false, d4: true };
    let refmodel::lang::Spec::Specified(r) = refmodel::lang::reference(&asts[0], &dev) else { return false };
    let Ok(d) = Dfa::new(&r.regex) else { return false };
    paths.iter().any(|p| {
        // the unspecified clauses of the reference (U2 / U3 rootedness) are not judged
        if (r.u2 && p.starts_with('/')) || (r.u3 && !p.starts_with('/')) || p.contains("//") {
            return false;
        }
        d.accepts(p) != is_match(p)
    })
}

/// Known-finding classifier for C09/C03 (DESIGN §6.1): identifies the recorded defect classes of
/// the exhaustiveness analysis by the witness and by the structure of the expression.
pub fn c09_class(asts: &[Seq], ancestor: &str) -> Option<String> {
    if ancestor.is_empty() || ancestor == "/" {
        return Some("exhaustive-at-empty-or-root-path".into());
    }
    // the recorded mechanisms all need a source of unbounded depth in the tail: a tree wildcard
    // (at the top level of the tail or inside its branches) or an open-ended repetition whose
    // body crosses a component boundary
    if asts.iter().any(|a| tail_has_branch(a) && tail_has_unbounded_depth_source(a)) {
        return Some("exhaustive-with-branch-in-tail".into());
    }
    None
}

/// The language the recorded encoder gives an expression, with each subset of the recorded
/// encoder deviations (D1 rooted-first tree, D4 nested tree position): the recorded findings of the
/// ANALYSES (exhaustiveness, depth) are attributed only where the implementation's language is one
/// of these - the recorded encoder, or the encoder with one or both of those findings repaired.
pub fn encoder_mirrors(ast: &Seq) -> Vec<(Dfa, bool, bool)> {
    let mut out = vec![];
    for (d1, d4) in [(true, true), (false, true), (true, false), (false, false)] {
        let dev = refmodel::lang::Deviations { d1, d2: false, d3: false, d4 };
        if let refmodel::lang::Spec::Specified(r) = refmodel::lang::reference(ast, &dev) {
            if let Ok(d) = Dfa::new(&r.regex) {
                out.push((d, r.u2, r.u3));
            }
        }
    }
    out
}

/// true when no mirror could be built (nothing to disagree with) or some mirror answers every
/// judged path as the implementation does
pub fn agrees_with_some_mirror(mirrors: &[(Dfa, bool, bool)], paths: &[&str], is_match: &dyn Fn(&str) -> bool) -> bool {
    if mirrors.is_empty() {
        return true;
    }
    mirrors.iter().any(|(d, u2, u3)| {
        paths.iter().all(|x| {
            let unjudged = (*u2 && x.starts_with('/')) || (*u3 && !x.starts_with('/')) || x.contains("//");
            unjudged || d.accepts(x) == is_match(x)
        })
    })
}

fn c09_check_program(
    rep: &Report,
    c: &mut Counters,
    what: &str,
    asts: &[Seq],
    patterns: &[&str],
    dfa: &Dfa,
    is_match: &dyn Fn(&str) -> bool,
) {
    let Ok(alphabet) = automata::alphabet(&[dfa.pattern.as_str()], &[]) else { return };
    let mon = AncMon { watch: 1, sat: 3 };
    let ex = model::explore_counted(c, &[dfa], &mon, &alphabet);
    let (v, mism) = model::validate_binding(&ex, &[dfa], &[is_match]);
    if finish_binding(rep, c, what, v, mism) {
        // bounded decision through the public API: every accepted canonical path and every
        // canonical path beneath it within the length bound
        let paths = fallback_paths(&alphabet);
        let accepted: Vec<&String> = paths.iter().filter(|p| canonical_shape(p).is_some() && is_match(p)).collect();
        'outer: for p in accepted {
            for q in &paths {
                let beneath = if p.is_empty() { !q.is_empty() && !q.starts_with('/') } else if p == "/" { q.len() > 1 && q.starts_with('/') } else { q.len() > p.len() + 1 && q.starts_with(p.as_str()) && q.as_bytes()[p.len()] == b'/' };
                if beneath && canonical_shape(q).is_some() && !is_match(q) {
                    rep.alarm(Alarm {
                        class: None,
                        key: format!("{} (bounded)", what),
                        msg: format!("{} reports is_exhaustive()=Always, matches {:?} but not its descendant {:?} (is_match differs from the compiled program; decided by bounded enumeration)", what, p, q),
                        case: json!({"kind": "exhaustive", "patterns": patterns, "ancestor": p, "path": q}),
                    });
                    break 'outer;
                }
            }
        }
    }
    let mut sound = true;
    let mut seen_classes: Vec<Option<String>> = vec![];
    // the encoder's mirrors of this expression, built once, when the first witness needs them
    let mut mirror: Option<Vec<(Dfa, bool, bool)>> = None;
    for (i, (t, (cs, anc))) in ex.states.iter().enumerate() {
        if !(cs.is_canonical_end() && *anc && !automata::acc(&[dfa], t, 0)) {
            continue;
        }
        sound = false;
        let q = ex.access(i);
        // confirm through the public API, twice
        let confirm = |q: &str| -> Option<String> {
            if is_match(q) {
                return None;
            }
            accepted_ancestor(q, is_match)
        };
        let p1 = confirm(&q);
        let p2 = confirm(&q);
        if p1 != p2 {
            crate::common::machinery_failure(&format!("non-deterministic replay for {} on {:?}", what, q));
        }
        match p1 {
            None => {
                bump(c, "unconfirmed_model_witnesses", 1);
                rep.note(format!("C09: model witness {:?} for {} not reproduced by the API", q, what));
            },
            Some(p) => {
                let mut class = c09_class(asts, &p);
                // the recorded findings are defects of the exhaustiveness ANALYSIS: the language is
                // the one the (recorded) encoder defines. A witness on which the implementation
                // answers differently from the encoder's mirror comes from a changed language and
                // is not attributed to them.
                if class.is_some() && asts.len() == 1 {
                    let ms = mirror.get_or_insert_with(|| encoder_mirrors(&asts[0]));
                    if !agrees_with_some_mirror(ms, &[p.as_str(), q.as_str()], is_match) {
                        class = None;
                    }
                }
                if seen_classes.contains(&class) {
                    continue;
                }
                seen_classes.push(class.clone());
                rep.alarm(Alarm {
                    key: format!("{} {:?}", what, class),
                    class,
                    msg: format!(
                        "{} reports is_exhaustive()=Always, matches {:?} but not its descendant {:?}",
                        what, p, q
                    ),
                    case: json!({"kind": "exhaustive", "patterns": patterns, "ancestor": p, "descendant": q}),
                });
            },
        }
    }
    if sound {
        bump(c, "always_exhaustive_sound", 1);
    }
}

pub fn c09(tier: Tier) -> i32 {
    let rep = Report::new("C09", tier, "model_checking");
    let opts = SpaceOpts::standard(tier);
    let samples = Mutex::new(0u32);
    for_each_glob(&rep, &opts, &|e, g, c| {
        let mut answers = vec![];
        for _ in 0..4 {
            answers.push(g.is_exhaustive());
        }
        if answers.iter().any(|a| *a != answers[0]) {
            rep.alarm(Alarm {
                class: None,
                key: format!("unstable {}", e.text),
                msg: format!("is_exhaustive() of `{}` is not stable across calls", e.text),
                case: json!({"kind": "exhaustive-unstable", "patterns": [e.text]}),
            });
        }
        bump(c, match answers[0] {
            When::Always => "verdict_always",
            When::Sometimes => "verdict_sometimes",
            When::Never => "verdict_never",
        }, 1);
        if answers[0] != When::Always {
            return;
        }
        let Ok(dfa) = model::dfa_of_glob(g) else {
            bump(c, "dfa_build_failed", 1);
            return;
        };
        {
            let mut s = samples.lock().unwrap();
            if *s < 6 {
                *s += 1;
                rep.sample(json!({"expression": e.text, "is_exhaustive": "Always", "regex": g.verif_program_text()}));
            }
        }
        c09_check_program(&rep, c, &format!("`{}`", e.text), std::slice::from_ref(&e.ast), &[e.text.as_str()], &dfa, &|p| g.is_match(p));
    });
    // owned globs that answer differently from the borrowed one
    for_each_glob(&rep, &SpaceOpts { shape: opts.shape.min(4), reduced: 0, position: 0, position_full: 0, subst_single: 0, subst_pairs: 0, ..opts.clone() }, &|e, g, c| {
        let owned = g.clone().into_owned();
        if owned.is_exhaustive() == When::Always && g.is_exhaustive() != When::Always {
            bump(c, "owned_answers_differ", 1);
            let Ok(dfa) = model::dfa_of_glob(&owned) else { return };
            c09_check_program(&rep, c, &format!("`{}`.into_owned()", e.text), std::slice::from_ref(&e.ast), &[e.text.as_str()], &dfa, &|p| owned.is_match(p));
        }
    });
    for_each_any(&rep, tier, &|combo, any, c| {
        let w = any.is_exhaustive();
        bump(c, match w {
            When::Always => "any_verdict_always",
            When::Sometimes => "any_verdict_sometimes",
            When::Never => "any_verdict_never",
        }, 1);
        if w != When::Always {
            return;
        }
        let Ok(dfa) = model::dfa_of_any(any) else { return };
        // classify through the members: if every violation of the combinator is explained by a
        // member's own class, the class is inherited
        let what = format!("any({:?})", combo);
        let asts: Vec<Seq> = combo.iter().filter_map(|t| syntax::parse(t).ok()).collect();
        c09_check_program(&rep, c, &what, &asts, combo, &dfa, &|p| any.is_match(p));
    });
    let states = rep.get("states");
    let transitions = rep.get("transitions");
    let traces = rep.get("traces_validated_against_impl");
    let binding = rep.get("binding_mismatches");
    let code = rep.finish(
        json!({
            "states": states, "transitions": transitions, "traces_validated_against_impl": traces,
            "exhaustive": true,
            "rule": "every expression of the tier's program space that builds and reports is_exhaustive()=Always, and every any() of up to three small globs that does; for each, all reachable states of implDFA x (canonical path, proper-ancestor-accepted) monitor",
            "bounds": format!("{:?}", opts),
        }),
        vec![
            "regex, regex-automata and regex-syntax implement one semantics for a pattern text".into(),
            "finite alphabet partition from the HIR of the compiled pattern is sound for all of Unicode".into(),
        ],
    );
    if code == 0 && binding > 0 {
        eprintln!("MACHINERY-FAILURE: {} binding mismatches between model and implementation", binding);
        return 2;
    }
    code
}

pub fn replay_exhaustive(case: &serde_json::Value) -> bool {
    let pats: Vec<String> = case["patterns"].as_array().unwrap().iter().map(|p| p.as_str().unwrap().to_string()).collect();
    let anc = case["ancestor"].as_str().unwrap_or("");
    let desc = case["descendant"].as_str().unwrap_or("");
    let any = wax::any(pats.iter().map(|s| s.as_str())).expect("patterns build");
    let ex = any.is_exhaustive();
    let globex = if pats.len() == 1 { Glob::new(&pats[0]).map(|g| g.is_exhaustive()).ok() } else { None };
    let m_anc = any.is_match(anc);
    let m_desc = any.is_match(desc);
    println!("patterns {:?}: is_exhaustive = {} (glob: {:?})", pats, when_str(ex), globex.map(when_str));
    println!("  is_match({:?}) = {}   expected: true (ancestor)", anc, m_anc);
    println!("  is_match({:?}) = {}   expected: true if 'Always' is sound", desc, m_desc);
    let claims = globex.map_or(ex == When::Always, |w| w == When::Always);
    claims && m_anc && !m_desc
}

// ---------------------------------------------------------------------------------------------
// C10
// ---------------------------------------------------------------------------------------------

/// a token that may match the empty text where a component is counted: a zero-or-more wildcard
/// or an optional repetition (the recorded finding is about exactly these)
pub fn has_possibly_empty_token(seq: &[Node]) -> bool {
    // the empty expression is the empty literal
    if seq.iter().all(|n| n.is_flag()) {
        return true;
    }
    seq.iter().any(|n| match &n.kind {
        Kind::Zom(_) => true,
        Kind::Rep { body, bounds } => bounds.values().map_or(false, |(lo, _)| lo == 0) || has_possibly_empty_token(body),
        Kind::Alt(bs) => bs.iter().any(|b| has_possibly_empty_token(b)),
        _ => false,
    })
}

/// a tree wildcard nested inside a branch token
pub fn nested_tree(seq: &[Node], inside: bool) -> bool {
    seq.iter().any(|n| match &n.kind {
        Kind::Tree { .. } => inside,
        Kind::Alt(bs) => bs.iter().any(|b| nested_tree(b, true)),
        Kind::Rep { body, .. } => nested_tree(body, true),
        _ => false,
    })
}

fn depth_bounds(d: &DepthVariance) -> (usize, Option<usize>) {
    use wax::query::Boundedness::{Bounded, Unbounded};
    match d {
        DepthVariance::Invariant(n) => (*n, Some(*n)),
        DepthVariance::Variant(range) => {
            let lo = match range.lower() {
                Bounded(n) => n.get(),
                Unbounded => 0,
            };
            let hi = match range.upper() {
                Bounded(n) => Some(n.get()),
                Unbounded => None,
            };
            (lo, hi)
        },
    }
}

fn c10_check_program(
    rep: &Report,
    c: &mut Counters,
    what: &str,
    patterns: &[&str],
    dfa: &Dfa,
    depth: DepthVariance,
    root: When,
    tree_in_branch: bool,
    may_be_empty: bool,
    is_match: &dyn Fn(&str) -> bool,
) {
    let (lo, hi) = depth_bounds(&depth);
    let top = hi.unwrap_or(lo).max(lo);
    if top > 200 {
        bump(c, "skipped_large_bounds", 1);
        return;
    }
    let sat = (top + 1) as u8;
    let Ok(alphabet) = automata::alphabet(&[dfa.pattern.as_str()], &[]) else { return };
    let mon = CanonMon { sat };
    let ex = model::explore_counted(c, &[dfa], &mon, &alphabet);
    let (v, mism) = model::validate_binding(&ex, &[dfa], &[is_match]);
    if finish_binding(rep, c, what, v, mism) {
        for p in fallback_paths(&alphabet) {
            let Some((rooted, n)) = canonical_shape(&p) else { continue };
            let admissible = match root {
                When::Always => rooted,
                When::Never => !rooted,
                When::Sometimes => true,
            };
            if admissible && (n < lo || hi.map_or(false, |h| n > h)) && is_match(&p) && !((p.is_empty() || p == "/") && may_be_empty) {
                rep.alarm(Alarm {
                    class: None,
                    key: format!("{} (bounded)", what),
                    msg: format!("{} reports depth {:?} but matches {:?} with {} component(s) (is_match differs from the compiled program; decided by bounded enumeration)", what, depth, p, n),
                    case: json!({"kind": "depth", "patterns": patterns, "path": p}),
                });
                break;
            }
        }
    }
    let mut witnesses: Vec<(usize, u8)> = vec![];
    for (i, (t, cs)) in ex.states.iter().enumerate() {
        if !cs.is_canonical_end() || !automata::acc(&[dfa], t, 0) {
            continue;
        }
        // admissible rootedness
        let admissible = match root {
            When::Always => cs.rooted,
            When::Never => !cs.rooted,
            When::Sometimes => true,
        };
        if !admissible {
            continue;
        }
        let n = cs.comps as usize;
        let below = n < lo;
        let above = hi.map_or(false, |h| n > h);
        if below || above {
            witnesses.push((i, cs.comps));
        }
    }
    bump(c, "depth_checked", 1);
    let mut mirror: Option<Vec<(Dfa, bool, bool)>> = None;
    for (i, comps) in witnesses {
        let p = ex.access(i);
        let a = is_match(&p);
        let b = is_match(&p);
        if a != b {
            crate::common::machinery_failure("non-deterministic is_match");
        }
        if !a {
            bump(c, "unconfirmed_model_witnesses", 1);
            continue;
        }
        let class = if (p.is_empty() || p == "/") && may_be_empty {
            Some("depth-empty-component".to_string())
        }
        else if tree_in_branch && (comps as usize) < lo {
            // the recorded finding is an over-counted LOWER bound only
            Some("depth-tree-in-branch".to_string())
        }
        else {
            None
        };
        // the recorded findings are defects of the depth ANALYSIS; a witness on which the
        // implementation answers differently from the encoder's mirror comes from a changed
        // language and is not attributed to them
        let class = if class.is_some() && patterns.len() == 1 {
            let ms = mirror.get_or_insert_with(|| syntax::parse(patterns[0]).map(|a| encoder_mirrors(&a)).unwrap_or_default());
            if !agrees_with_some_mirror(ms, &[p.as_str()], is_match) { None } else { class }
        }
        else {
            class
        };
        rep.alarm(Alarm {
            class,
            key: format!("{} {:?}", what, p),
            msg: format!(
                "{} reports depth {:?} but matches {:?} with {} component(s)",
                what, depth, p, comps
            ),
            case: json!({"kind": "depth", "patterns": patterns, "path": p, "components": comps}),
        });
    }
}

pub fn c10(tier: Tier) -> i32 {
    let rep = Report::new("C10", tier, "model_checking");
    let opts = SpaceOpts::standard(tier);
    for_each_glob(&rep, &opts, &|e, g, c| {
        let d0 = g.depth();
        // hash order inside the depth algebra is sampled (DESIGN §2.6)
        for _ in 0..7 {
            let d = g.depth();
            if d != d0 {
                rep.alarm(Alarm {
                    class: None,
                    key: format!("unstable {}", e.text),
                    msg: format!("depth() of `{}` is not stable across calls: {:?} vs {:?}", e.text, d0, d),
                    case: json!({"kind": "depth-unstable", "patterns": [e.text]}),
                });
                break;
            }
        }
        let Ok(dfa) = model::dfa_of_glob(g) else { return };
        if e.pass == "corpus" || e.text.len() <= 2 {
            rep.sample(json!({"expression": e.text, "depth": format!("{:?}", d0), "has_root": when_str(g.has_root())}));
        }
        c10_check_program(&rep, c, &format!("`{}`", e.text), &[e.text.as_str()], &dfa, d0, g.has_root(), nested_tree(&e.ast, false), has_possibly_empty_token(&e.ast), &|p| g.is_match(p));
        // the owned pattern is a pattern too: if it answers differently, it is checked as well
        let owned = g.clone().into_owned();
        let d1 = owned.depth();
        if d1 != d0 {
            bump(c, "owned_answers_differ", 1);
            c10_check_program(&rep, c, &format!("`{}`.into_owned()", e.text), &[e.text.as_str()], &dfa, d1, owned.has_root(), nested_tree(&e.ast, false), has_possibly_empty_token(&e.ast), &|p| owned.is_match(p));
        }
    });
    for_each_any(&rep, tier, &|combo, any, c| {
        let Ok(dfa) = model::dfa_of_any(any) else { return };
        c10_check_program(&rep, c, &format!("any({:?})", combo), combo, &dfa, any.depth(), any.has_root(), combo.iter().any(|t| syntax::parse(t).map_or(false, |a| nested_tree(&a, false))), combo.iter().any(|t| t.is_empty() || syntax::parse(t).map_or(false, |a| has_possibly_empty_token(&a))), &|p| any.is_match(p));
    });
    finish_mc(&rep, &opts, "every built expression of the tier's program space and every any() of up to three small globs; all reachable states of implDFA x (canonical path, saturating component counter)")
}

pub fn finish_mc(rep: &Report, opts: &SpaceOpts, rule: &str) -> i32 {
    let states = rep.get("states");
    let transitions = rep.get("transitions");
    let traces = rep.get("traces_validated_against_impl");
    let binding = rep.get("binding_mismatches");
    let code = rep.finish(
        json!({
            "states": states, "transitions": transitions, "traces_validated_against_impl": traces,
            "exhaustive": rep.get("models_capped") == 0,
            "rule": rule,
            "bounds": format!("{:?}", opts),
        }),
        vec![
            "regex, regex-automata and regex-syntax (same versions as /repo/Cargo.lock) implement one semantics for a pattern text".into(),
            "the finite alphabet partition computed from the HIR of the compiled pattern is sound for all of Unicode".into(),
            "program size is bounded as stated in 'bounds'; path length is unbounded".into(),
        ],
    );
    if code == 0 && binding > 0 {
        eprintln!("MACHINERY-FAILURE: {} binding mismatches between model and implementation", binding);
        return 2;
    }
    code
}

pub fn replay_depth(case: &serde_json::Value) -> bool {
    let pats: Vec<String> = case["patterns"].as_array().unwrap().iter().map(|p| p.as_str().unwrap().to_string()).collect();
    let path = case["path"].as_str().unwrap_or("");
    let any = wax::any(pats.iter().map(|s| s.as_str())).expect("patterns build");
    let (depth, m) = if pats.len() == 1 {
        let g = Glob::new(&pats[0]).unwrap();
        (g.depth(), g.is_match(path))
    }
    else {
        (any.depth(), any.is_match(path))
    };
    let comps = path.split('/').filter(|s| !s.is_empty()).count();
    let (lo, hi) = depth_bounds(&depth);
    println!("patterns {:?}: depth() = {:?}", pats, depth);
    println!("  is_match({:?}) = {}; components = {}; expected within [{}, {:?}]", path, m, comps, lo, hi);
    m && (comps < lo || hi.map_or(false, |h| comps > h))
}

// ---------------------------------------------------------------------------------------------
// C11
// ---------------------------------------------------------------------------------------------

pub fn class_lists_separator(seq: &[Node]) -> bool {
    seq.iter().any(|n| match &n.kind {
        Kind::Class { items, .. } => items.iter().any(|it| match it {
            syntax::ClassItem::Ch(c) => *c == '/',
            syntax::ClassItem::Range(a, b) => *a <= '/' && '/' <= *b,
        }),
        Kind::Alt(bs) => bs.iter().any(|b| class_lists_separator(b)),
        Kind::Rep { body, .. } => class_lists_separator(body),
        _ => false,
    })
}

fn has_casing(c: char) -> bool {
    c.is_lowercase() != c.is_uppercase()
}

/// literal with casing under a case-insensitive flag (textual flag threading)
fn cased_literal_under_ci(seq: &[Node], ci: &mut bool) -> bool {
    let mut found = false;
    for n in seq {
        match &n.kind {
            Kind::Flag(t) => {
                for x in t {
                    *ci = *x;
                }
            },
            Kind::Lit(t) => {
                if *ci && t.chars().any(has_casing) {
                    found = true;
                }
            },
            Kind::Alt(bs) => {
                for b in bs {
                    if cased_literal_under_ci(b, ci) {
                        found = true;
                    }
                }
            },
            Kind::Rep { body, .. } => {
                if cased_literal_under_ci(body, ci) {
                    found = true;
                }
            },
            _ => {},
        }
    }
    found
}

fn c11_check_program(
    rep: &Report,
    c: &mut Counters,
    what: &str,
    patterns: &[&str],
    lists_sep: bool,
    dfa: &Dfa,
    text: &str,
    is_match: &dyn Fn(&str) -> bool,
) {
    let extra: Vec<char> = text.chars().collect();
    let Ok(alphabet) = automata::alphabet(&[dfa.pattern.as_str()], &extra) else { return };
    let mon = TextMon { text: extra.clone() };
    let ex = model::explore_counted(c, &[dfa], &mon, &alphabet);
    let (v, mism) = model::validate_binding(&ex, &[dfa], &[is_match]);
    if finish_binding(rep, c, what, v, mism) {
        for p in fallback_paths(&alphabet) {
            if p != text && is_match(&p) {
                rep.alarm(Alarm {
                    class: None,
                    key: format!("{} {:?} (bounded)", what, p),
                    msg: format!("{} reports invariant text {:?} but also matches {:?} (is_match differs from the compiled program; decided by bounded enumeration)", what, text, p),
                    case: json!({"kind": "text-other", "patterns": patterns, "text": text, "path": p}),
                });
                break;
            }
        }
        if !lists_sep && !is_match(text) {
            rep.alarm(Alarm {
                class: None,
                key: format!("{} self", what),
                msg: format!("{} reports invariant text {:?} but does not match it", what, text),
                case: json!({"kind": "text-self", "patterns": patterns, "text": text, "path": text}),
            });
        }
    }
    bump(c, "invariant_checked", 1);
    let mut matched_text = false;
    for (i, (t, pos)) in ex.states.iter().enumerate() {
        if !automata::acc(&[dfa], t, 0) {
            continue;
        }
        if *pos == Some(extra.len() as u32) {
            matched_text = true;
            continue;
        }
        let p = ex.access(i);
        if !is_match(&p) {
            bump(c, "unconfirmed_model_witnesses", 1);
            continue;
        }
        rep.alarm(Alarm {
            class: None,
            key: format!("{} {:?}", what, p),
            msg: format!("{} reports invariant text {:?} but also matches {:?}", what, text, p),
            case: json!({"kind": "text-other", "patterns": patterns, "text": text, "path": p}),
        });
        break;
    }
    if !matched_text && !lists_sep {
        let real = is_match(text);
        if !real {
            rep.alarm(Alarm {
                class: None,
                key: format!("{} self", what),
                msg: format!("{} reports invariant text {:?} but does not match it", what, text),
                case: json!({"kind": "text-self", "patterns": patterns, "text": text, "path": text}),
            });
        }
    }
}

pub fn c11(tier: Tier) -> i32 {
    let rep = Report::new("C11", tier, "model_checking");
    // the combinator family (arity 0..2, nesting depth <= 3): invariant text is the one and only match
    let trees = crate::props_total::combinator_laws(&rep, tier, "C11");
    rep.add("combinator_trees_judged", trees);
    let opts = SpaceOpts::standard(tier);
    for_each_glob(&rep, &opts, &|e, g, c| {
        let t0 = g.text();
        for _ in 0..3 {
            if g.text() != t0 {
                rep.alarm(Alarm {
                    class: None,
                    key: format!("unstable {}", e.text),
                    msg: format!("text() of `{}` is not stable across calls", e.text),
                    case: json!({"kind": "text-unstable", "patterns": [e.text]}),
                });
            }
        }
        let mut ci = false;
        let cased = cased_literal_under_ci(&e.ast, &mut ci);
        match &t0 {
            TextVariance::Invariant(t) => {
                bump(c, "verdict_invariant", 1);
                if cased {
                    rep.alarm(Alarm {
                        class: None,
                        key: format!("cased {}", e.text),
                        msg: format!(
                            "`{}` has a cased literal under (?i) on a case-sensitive platform but reports invariant text {:?}",
                            e.text, t
                        ),
                        case: json!({"kind": "text-cased", "patterns": [e.text]}),
                    });
                }
                let Ok(dfa) = model::dfa_of_glob(g) else { return };
                if e.text.len() <= 3 || e.pass == "corpus" {
                    rep.sample(json!({"expression": e.text, "text": t}));
                }
                c11_check_program(&rep, c, &format!("`{}`", e.text), &[e.text.as_str()], class_lists_separator(&e.ast), &dfa, t, &|p| g.is_match(p));
            },
            TextVariance::Variant(_) => bump(c, "verdict_variant", 1),
        }
        // the owned pattern is a pattern too: if it answers differently, it is checked as well
        let owned = g.clone().into_owned();
        let t1 = owned.text();
        if t1 != t0 {
            bump(c, "owned_answers_differ", 1);
            if let TextVariance::Invariant(t) = &t1 {
                if let Ok(dfa) = model::dfa_of_glob(&owned) {
                    c11_check_program(&rep, c, &format!("`{}`.into_owned()", e.text), &[e.text.as_str()], class_lists_separator(&e.ast), &dfa, t, &|p| owned.is_match(p));
                }
                if cased {
                    rep.alarm(Alarm {
                        class: None,
                        key: format!("cased owned {}", e.text),
                        msg: format!("`{}`.into_owned() has a cased literal under (?i) but reports invariant text {:?}", e.text, t),
                        case: json!({"kind": "text-cased", "patterns": [e.text]}),
                    });
                }
            }
        }
    });
    for_each_any(&rep, tier, &|combo, any, c| {
        if let TextVariance::Invariant(t) = any.text() {
            bump(c, "any_verdict_invariant", 1);
            let Ok(dfa) = model::dfa_of_any(any) else { return };
            let lists = combo.iter().any(|t| syntax::parse(t).map_or(false, |a| class_lists_separator(&a)));
            c11_check_program(&rep, c, &format!("any({:?})", combo), combo, lists, &dfa, &t, &|p| any.is_match(p));
        }
    });
    finish_mc(&rep, &opts, "every built expression / small any() that reports invariant text t; all reachable states of implDFA x position-in-t monitor over ALL paths; plus the syntactic converse for cased literals under (?i)")
}

pub fn replay_text(case: &serde_json::Value) -> bool {
    let pats: Vec<String> = case["patterns"].as_array().unwrap().iter().map(|p| p.as_str().unwrap().to_string()).collect();
    let kind = case["kind"].as_str().unwrap_or("");
    let any = wax::any(pats.iter().map(|s| s.as_str())).expect("patterns build");
    let text = if pats.len() == 1 { Glob::new(&pats[0]).unwrap().text() } else { any.text() };
    println!("patterns {:?}: text() = {:?}", pats, text);
    match kind {
        "text-other" | "text-self" => {
            let path = case["path"].as_str().unwrap();
            let m = any.is_match(path);
            println!("  is_match({:?}) = {}", path, m);
            match (&text, kind) {
                (TextVariance::Invariant(t), "text-other") => m && t != path,
                (TextVariance::Invariant(t), _) => !any.is_match(t.as_ref()),
                _ => false,
            }
        },
        "text-cased" => {
            let ast = syntax::parse(&pats[0]).unwrap();
            let mut ci = false;
            cased_literal_under_ci(&ast, &mut ci) && text.is_invariant()
        },
        _ => false,
    }
}

// ---------------------------------------------------------------------------------------------
// C12
// ---------------------------------------------------------------------------------------------

/// A component spelled entirely as the literal `.` or `..`, delimited at its own nesting level by
/// separators, tree wildcards or the ends of its sub-expression.
pub fn has_semantic_component(seq: &[Node]) -> bool {
    let toks: Vec<&Node> = seq.iter().filter(|n| !n.is_flag()).collect();
    let mut i = 0;
    while i < toks.len() {
        // a component = maximal run of non-boundary tokens
        if toks[i].is_boundary() {
            i += 1;
            continue;
        }
        let mut j = i;
        while j < toks.len() && !toks[j].is_boundary() {
            j += 1;
        }
        let run = &toks[i..j];
        if run.iter().all(|n| matches!(n.kind, Kind::Lit(_))) {
            let text: String = run
                .iter()
                .map(|n| if let Kind::Lit(t) = &n.kind { t.as_str() } else { "" })
                .collect();
            if text == "." || text == ".." {
                return true;
            }
        }
        for n in run {
            match &n.kind {
                Kind::Alt(bs) => {
                    if bs.iter().any(|b| has_semantic_component(b)) {
                        return true;
                    }
                },
                Kind::Rep { body, .. } => {
                    if has_semantic_component(body) {
                        return true;
                    }
                },
                _ => {},
            }
        }
        i = j;
    }
    false
}

fn is_sole_rooted_tree(seq: &[Node]) -> bool {
    let toks: Vec<&Node> = seq.iter().filter(|n| !n.is_flag()).collect();
    toks.len() == 1 && matches!(toks[0].kind, Kind::Tree { lead: true, .. })
}

fn c12_check_root(
    rep: &Report,
    c: &mut Counters,
    what: &str,
    patterns: &[&str],
    class: Option<String>,
    dfa: &Dfa,
    is_match: &dyn Fn(&str) -> bool,
) {
    let Ok(alphabet) = automata::alphabet(&[dfa.pattern.as_str()], &[]) else { return };
    let ex = model::explore_counted(c, &[dfa], &FirstMon, &alphabet);
    let (v, mism) = model::validate_binding(&ex, &[dfa], &[is_match]);
    if finish_binding(rep, c, what, v, mism) {
        for p in fallback_paths(&alphabet) {
            if !p.starts_with('/') && is_match(&p) {
                rep.alarm(Alarm {
                    class: class.clone(),
                    key: what.to_string(),
                    msg: format!("{} reports has_root()=Always but matches {:?} (is_match differs from the compiled program; decided by bounded enumeration)", what, p),
                    case: json!({"kind": "root", "patterns": patterns, "path": p}),
                });
                break;
            }
        }
    }
    bump(c, "rooted_checked", 1);
    for (i, (t, first)) in ex.states.iter().enumerate() {
        if automata::acc(&[dfa], t, 0) && *first != 1 {
            let p = ex.access(i);
            if !is_match(&p) {
                bump(c, "unconfirmed_model_witnesses", 1);
                continue;
            }
            rep.alarm(Alarm {
                class,
                key: what.to_string(),
                msg: format!("{} reports has_root()=Always but matches {:?}", what, p),
                case: json!({"kind": "root", "patterns": patterns, "path": p}),
            });
            break;
        }
    }
}

pub fn c12(tier: Tier) -> i32 {
    let rep = Report::new("C12", tier, "model_checking");
    let opts = SpaceOpts::standard(tier);
    for_each_glob(&rep, &opts, &|e, g, c| {
        let root = g.has_root();
        bump(c, match root {
            When::Always => "root_always",
            When::Sometimes => "root_sometimes",
            When::Never => "root_never",
        }, 1);
        if root == When::Sometimes {
            rep.alarm(Alarm {
                class: Some("rooting-through-nested-branch".into()),
                key: format!("sometimes {}", e.text),
                msg: format!("glob `{}` reports has_root()=Sometimes", e.text),
                case: json!({"kind": "root-sometimes", "patterns": [e.text]}),
            });
        }
        // the owned glob must answer the same questions the same way
        {
            let owned = g.clone().into_owned();
            if owned.has_root() != root || owned.has_semantic_literals() != g.has_semantic_literals() {
                bump(c, "owned_answers_differ", 1);
                let expected = has_semantic_component(&e.ast);
                if owned.has_root() == When::Sometimes || (expected && !owned.has_semantic_literals()) {
                    rep.alarm(Alarm {
                        class: None,
                        key: format!("owned {}", e.text),
                        msg: format!("`{}`.into_owned(): has_root() = {:?}, has_semantic_literals() = {} (expected {})", e.text, owned.has_root(), owned.has_semantic_literals(), expected),
                        case: json!({"kind": "semantic", "patterns": [e.text]}),
                    });
                }
                if owned.has_root() == When::Always && root != When::Always {
                    if let Ok(dfa) = model::dfa_of_glob(&owned) {
                        c12_check_root(&rep, c, &format!("`{}`.into_owned()", e.text), &[e.text.as_str()], None, &dfa, &|p| owned.is_match(p));
                    }
                }
            }
        }
        // semantic literals
        let expected = has_semantic_component(&e.ast);
        let got = g.has_semantic_literals();
        if expected {
            bump(c, "semantic_components", 1);
        }
        if expected && !got {
            rep.alarm(Alarm {
                class: None,
                key: format!("semantic {}", e.text),
                msg: format!(
                    "`{}` has a component spelled `.`/`..` but has_semantic_literals() is false",
                    e.text
                ),
                case: json!({"kind": "semantic", "patterns": [e.text]}),
            });
        }
        if root == When::Always {
            let Ok(dfa) = model::dfa_of_glob(g) else { return };
            if e.text.len() <= 3 {
                rep.sample(json!({"expression": e.text, "has_root": "Always", "regex": g.verif_program_text()}));
            }
            let class = if is_sole_rooted_tree(&e.ast) { Some("sole-rooted-tree-matches-relative".to_string()) } else { None };
            c12_check_root(&rep, c, &format!("`{}`", e.text), &[e.text.as_str()], class, &dfa, &|p| g.is_match(p));
        }
    });
    for_each_any(&rep, tier, &|combo, any, c| {
        if any.has_root() == When::Always {
            bump(c, "any_root_always", 1);
            let Ok(dfa) = model::dfa_of_any(any) else { return };
            let all_sole = combo.iter().all(|t| syntax::parse(t).map_or(false, |a| is_sole_rooted_tree(&a)));
            let any_sole = combo.iter().any(|t| syntax::parse(t).map_or(false, |a| is_sole_rooted_tree(&a)));
            let _ = all_sole;
            let class = if any_sole { Some("sole-rooted-tree-matches-relative".to_string()) } else { None };
            c12_check_root(&rep, c, &format!("any({:?})", combo), combo, class, &dfa, &|p| any.is_match(p));
        }
    });
    finish_mc(&rep, &opts, "every built expression (has_root != Sometimes; semantic-literal scan) and, for has_root()=Always globs and small any()s, all reachable states of implDFA x first-character monitor over ALL paths")
}

pub fn replay_root(case: &serde_json::Value) -> bool {
    let pats: Vec<String> = case["patterns"].as_array().unwrap().iter().map(|p| p.as_str().unwrap().to_string()).collect();
    let kind = case["kind"].as_str().unwrap_or("");
    match kind {
        "root" => {
            let path = case["path"].as_str().unwrap();
            let any = wax::any(pats.iter().map(|s| s.as_str())).expect("patterns build");
            let root = if pats.len() == 1 { Glob::new(&pats[0]).unwrap().has_root() } else { any.has_root() };
            let m = any.is_match(path);
            println!("patterns {:?}: has_root() = {}; is_match({:?}) = {}", pats, when_str(root), path, m);
            root == When::Always && m && !path.starts_with('/')
        },
        "root-sometimes" => {
            let g = Glob::new(&pats[0]).unwrap();
            println!("`{}`: has_root() = {}", pats[0], when_str(g.has_root()));
            g.has_root() == When::Sometimes
        },
        "semantic" => {
            let g = Glob::new(&pats[0]).unwrap();
            println!("`{}`: has_semantic_literals() = {}", pats[0], g.has_semantic_literals());
            !g.has_semantic_literals()
        },
        _ => false,
    }
}
