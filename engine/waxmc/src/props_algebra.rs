//! C07: branches compose. Alternation = union of branch substitutions, repetition = iteration,
//! wrapping is neutral, `any` = union. Decided on the product of the implementation's own
//! automata of all family members (no reference semantics involved), for all paths.

use rayon::prelude::*;
use refmodel::astops;
use refmodel::automata::{self, Dfa, NoMonitor};
use refmodel::syntax::{self, Bounds, Kind, Seq};
use serde_json::json;
use wax::{Glob, Program};

use crate::common::{guard, Alarm, Report, Tier};
use crate::model::{self, bump, Counters};
use crate::props_query::{any_pool, finish_mc, for_each_glob};
use crate::space::SpaceOpts;

struct Member {
    text: String,
    dfa: Dfa,
}

fn member(text: String) -> Option<Member> {
    let g = model::build_ok(&text)?;
    let dfa = model::dfa_of_glob(&g).ok()?;
    drop(g);
    Some(Member { text, dfa })
}

enum Law {
    /// acc(E) <=> OR acc(member)
    Equal,
    /// acc(member) => acc(E) for all paths, and acc(E) => OR acc(member) for paths of at most
    /// this many characters (an open repetition whose body consumes at least one character
    /// cannot iterate more often than the path is long)
    IncludesAndEqualUpTo(u8),
}

/// path length, saturating
struct LenMon {
    max: u8,
}

impl automata::Monitor for LenMon {
    type S = u8;
    fn init(&self) -> u8 {
        0
    }
    fn step(&self, s: &u8, _: u32, _: char) -> Option<u8> {
        Some((*s + 1).min(self.max))
    }
}

/// Explores DFA(E) x DFA(m_1) x ... and checks the law in every reachable tuple.
#[allow(clippy::too_many_arguments)]
fn check_family(
    rep: &Report,
    c: &mut Counters,
    kind: &'static str,
    e_text: &str,
    e_dfa: &Dfa,
    e_ast: &Seq,
    members: &[Member],
    law: Law,
) {
    if members.is_empty() || members.len() + 1 > automata::MAX_DFAS {
        bump(c, "families_skipped_size", 1);
        return;
    }
    let mut dfas: Vec<&Dfa> = vec![e_dfa];
    for m in members {
        dfas.push(&m.dfa);
    }
    let pats: Vec<&str> = dfas.iter().map(|d| d.pattern.as_str()).collect();
    let Ok(alphabet) = automata::alphabet(&pats, &[]) else { return };
    let bound = match law {
        Law::IncludesAndEqualUpTo(n) => n,
        Law::Equal => 0,
    };
    let ex = model::explore_counted(c, &dfas, &LenMon { max: bound.saturating_add(1) }, &alphabet);
    bump(c, "families", 1);
    if e_text.len() <= 5 {
        rep.sample(json!({"law": kind, "whole": e_text, "members": members.iter().map(|m| m.text.clone()).collect::<Vec<_>>(), "product_states": ex.states.len()}));
    }
    // binding: every state, every member, through the public API
    let e_glob = model::build_ok(e_text);
    let m_globs: Vec<Option<Glob<'_>>> = members.iter().map(|m| model::build_ok(&m.text)).collect();
    let strings = model::access_strings(&ex);
    let mut violation: Option<(String, bool, Vec<bool>)> = None;
    for (i, (t, len)) in ex.states.iter().enumerate() {
        let e_acc = automata::acc(&dfas, t, 0);
        let m_acc: Vec<bool> = (1..dfas.len()).map(|k| automata::acc(&dfas, t, k)).collect();
        // binding validation
        if let Some(g) = &e_glob {
            bump(c, "traces_validated_against_impl", 1);
            if g.is_match(strings[i].as_str()) != e_acc {
                bump(c, "binding_mismatches", 1);
            }
        }
        for (k, g) in m_globs.iter().enumerate() {
            if let Some(g) = g {
                bump(c, "traces_validated_against_impl", 1);
                if g.is_match(strings[i].as_str()) != m_acc[k] {
                    bump(c, "binding_mismatches", 1);
                }
            }
        }
        let union = m_acc.iter().any(|x| *x);
        let bad = match law {
            Law::Equal => e_acc != union,
            Law::IncludesAndEqualUpTo(n) => (union && !e_acc) || (*len <= n && e_acc && !union),
        };
        if bad && violation.is_none() {
            violation = Some((strings[i].clone(), e_acc, m_acc));
        }
    }
    // every other explored transition: the whole expression is replayed through the real matcher;
    // where it answers differently from its automaton (a matcher that is not a function of the
    // automaton state), the law is judged on that string with the real answers of every member
    if let Some(g) = &e_glob {
        for (from, ch, to) in ex.cross.iter() {
            let (t, len) = &ex.states[*to as usize];
            let mut s = strings[*from as usize].clone();
            s.push(*ch);
            bump(c, "traces_validated_against_impl", 1);
            let e_real = g.is_match(s.as_str());
            if e_real == automata::acc(&dfas, t, 0) {
                continue;
            }
            bump(c, "binding_mismatches", 1);
            let m_real: Vec<bool> = m_globs.iter().enumerate().map(|(k, g)| g.as_ref().map_or(automata::acc(&dfas, t, k + 1), |g| g.is_match(s.as_str()))).collect();
            let union = m_real.iter().any(|x| *x);
            let bad = match law {
                Law::Equal => e_real != union,
                Law::IncludesAndEqualUpTo(n) => (union && !e_real) || (*len <= n && e_real && !union),
            };
            if bad && violation.is_none() {
                violation = Some((s, e_real, m_real));
            }
        }
    }
    if let Some((path, e_acc, m_acc)) = violation {
        let path = &path;
        // confirm with the public API (twice)
        let real = |p: &str| -> (bool, Vec<bool>) {
            (
                e_glob.as_ref().map_or(e_acc, |g| g.is_match(p)),
                m_globs.iter().enumerate().map(|(k, g)| g.as_ref().map_or(m_acc[k], |g| g.is_match(p))).collect(),
            )
        };
        let r1 = real(path);
        let r2 = real(path);
        if r1 != r2 {
            crate::common::machinery_failure("non-deterministic is_match");
        }
        let union = r1.1.iter().any(|x| *x);
        let plen = path.chars().count();
        let bad = match law {
            Law::Equal => r1.0 != union,
            Law::IncludesAndEqualUpTo(n) => (union && !r1.0) || (plen <= n as usize && r1.0 && !union),
        };
        if !bad {
            bump(c, "unconfirmed_model_witnesses", 1);
            return;
        }
        let member_texts: Vec<&str> = members.iter().map(|m| m.text.as_str()).collect();
        let nested = astops::nested_tree(e_ast, false)
            || member_texts.iter().any(|t| syntax::parse(t).map_or(false, |a| astops::nested_tree(&a, false)));
        // attribute to the recorded encoder deviation only if its mirror predicts every answer
        let predicted = |text: &str, real: bool| -> bool {
            syntax::parse(text)
                .ok()
                .and_then(|a| Dfa::new(&refmodel::lang::mirror_regex(&a)).ok())
                .map_or(false, |d| d.accepts(path) == real)
        };
        let mirrored = predicted(e_text, r1.0)
            && member_texts.iter().zip(r1.1.iter()).all(|(t, r)| predicted(t, *r));
        // ... and to the recorded rooted-first deviation D1 alone (unrolling an optional repetition
        // with n = 0 in front of `/**/` turns a middle tree wildcard into a rooted-first one, whose
        // trailing separator is optional: `/**/b` matches `/xb`) only if the reference with
        // exactly D1 predicts every answer
        let predicted_d1 = |text: &str, real: bool| -> bool {
            let dev = refmodel::lang::Deviations { d1: true, ..Default::default() };
            match syntax::parse(text).ok().map(|a| refmodel::lang::reference(&a, &dev)) {
                Some(refmodel::lang::Spec::Specified(r)) => Dfa::new(&r.regex).map_or(false, |d| d.accepts(path) == real),
                _ => false,
            }
        };
        // the recorded deviations are about well-formed expressions: an expression that the
        // documented rules reject but that was built all the same is a different defect, and the
        // law failing on it is not attributed to them
        let ill_formed = std::iter::once(e_text).chain(member_texts.iter().copied()).any(|t| {
            syntax::parse(t).map_or(false, |a| matches!(refmodel::rules::check(&a), refmodel::rules::Verdict::MustFail(_)))
        });
        let class = if ill_formed {
            None
        }
        else if nested && mirrored {
            Some("nested-tree-position".to_string())
        }
        else if !nested
            && std::iter::once(e_text).chain(member_texts.iter().copied()).any(|t| t.trim_start_matches(|ch| ch != '/' && ch != '*').starts_with("/**") || t.contains("/**"))
            && predicted_d1(e_text, r1.0)
            && member_texts.iter().zip(r1.1.iter()).all(|(t, r)| predicted_d1(t, *r))
        {
            Some("rooted-first-tree-optional-separator".to_string())
        }
        else {
            None
        };
        rep.alarm(Alarm {
            class,
            key: format!("{} {} {:?}", kind, e_text, member_texts),
            msg: format!(
                "{} law fails: `{}` {} {:?} on path {:?}: whole={} members={:?}",
                kind,
                e_text,
                match law {
                    Law::Equal => "!= union of",
                    Law::IncludesAndEqualUpTo(_) => "is not (within the length bound) the union of",
                },
                member_texts,
                path,
                r1.0,
                r1.1
            ),
            case: json!({"kind": "family", "law": kind, "includes_only": matches!(law, Law::IncludesAndEqualUpTo(_)), "equal_up_to": bound,
                         "whole": e_text, "members": member_texts, "path": path}),
        });
    }
}

pub fn replay_family(case: &serde_json::Value) -> bool {
    let whole = case["whole"].as_str().unwrap();
    let members: Vec<String> = case["members"].as_array().unwrap().iter().map(|m| m.as_str().unwrap().to_string()).collect();
    let path = case["path"].as_str().unwrap();
    let includes_only = case["includes_only"].as_bool().unwrap_or(false);
    let whole_is_any = case["whole_is_any"].as_bool().unwrap_or(false);
    let w = if whole_is_any {
        let pats: Vec<&str> = members.iter().map(|s| s.as_str()).collect();
        let route = case["route"].as_str().unwrap_or("text");
        any_by_route(&pats, route).map(|a| a.is_match(path)).unwrap_or(false)
    }
    else {
        Glob::new(whole).unwrap().is_match(path)
    };
    let ms: Vec<bool> = members.iter().map(|m| Glob::new(m).unwrap().is_match(path)).collect();
    println!("whole `{}`.is_match({:?}) = {}", whole, path, w);
    for (m, r) in members.iter().zip(ms.iter()) {
        println!("  member `{}`.is_match({:?}) = {}", m, path, r);
    }
    let union = ms.iter().any(|x| *x);
    println!("expected: whole {} union of members = {}", if includes_only { ">=" } else { "==" }, union);
    if includes_only {
        let n = case["equal_up_to"].as_u64().unwrap_or(0) as usize;
        (union && !w) || (path.chars().count() <= n && w && !union)
    }
    else {
        union != w
    }
}

fn any_by_route<'t>(pats: &[&'t str], route: &str) -> Option<wax::Any<'t>> {
    match route {
        "text" => wax::any(pats.iter().copied()).ok(),
        "compiled" => {
            let globs: Vec<Glob<'t>> = pats.iter().map(|p| Glob::new(p)).collect::<Result<_, _>>().ok()?;
            wax::any(globs).ok()
        },
        "nested" => {
            let anys: Vec<wax::Any<'t>> = pats.iter().map(|p| wax::any([*p])).collect::<Result<_, _>>().ok()?;
            wax::any(anys).ok()
        },
        "owned" => {
            let globs: Vec<Glob<'static>> =
                pats.iter().map(|p| Glob::new(p).map(|g| g.into_owned())).collect::<Result<_, _>>().ok()?;
            wax::any(globs).ok()
        },
        _ => None,
    }
}

pub fn c07(tier: Tier) -> i32 {
    let rep = Report::new("C07", tier, "model_checking");
    // the combinator family (arity 0..2, nesting depth <= 3, text / compiled / owned leaves): union law
    let trees = crate::props_total::combinator_laws(&rep, tier, "C07");
    rep.add("combinator_trees_judged", trees);
    let mut opts = SpaceOpts::standard(tier);
    if tier == Tier::Quick {
        opts.subst_pairs = 0;
        opts.subst_single = 2;
    }
    else {
        // every family costs a product exploration of several automata (measured: the standard
        // thorough space takes more than three hours on 16 cores here, even its half 112 minutes):
        // the thorough tier of this check keeps the quick shapes, substitutes singles and pairs on
        // more of them, adds the reduced alphabet at size 5 and the full wrapper set at nesting
        // depth 2; the shapes of size 5 are left to the single-automaton checks
        opts.shape = 4;
        opts.subst_single = 3;
        opts.subst_pairs = 3;
        opts.reduced = 5;
        opts.position = 2;
        opts.position_full = 2;
    }
    let sub_wrap_max = tier.pick(3, 4);
    for_each_glob(&rep, &opts, &|e, g, c| {
        if e.ast.is_empty() {
            return;
        }
        let Ok(e_dfa) = model::dfa_of_glob(g) else { return };
        // (1) alternation / repetition families at every branch site
        let e_spec = refmodel::lang::reference(&e.ast, &Default::default());
        let position_varies = match &e_spec {
            refmodel::lang::Spec::Unspecified(why) => why.contains("optional repetitions") || why.contains("repeating body"),
            _ => false,
        };
        for path in astops::branch_sites(&e.ast) {
            // inside a repetition that iterates, every iteration may choose differently: the
            // substitution / unrolling laws are only stated for sites that are matched once
            if astops::under_repeating(&e.ast, &path) {
                bump(c, "sites_under_repeating_repetition", 1);
                continue;
            }
            match &astops::node_at(&e.ast, &path).kind {
                Kind::Alt(_) => {
                    let Some(seqs) = astops::alt_members(&e.ast, &path) else {
                        bump(c, "families_skipped_flags", 1);
                        continue;
                    };
                    let mut members = vec![];
                    let mut ok = true;
                    for s in &seqs {
                        if !s.is_empty() && !syntax::is_canonical(s) {
                            ok = false;
                            break;
                        }
                        match member(syntax::to_text(s)) {
                            Some(m) => members.push(m),
                            None => {
                                ok = false;
                                break;
                            },
                        }
                    }
                    if !ok {
                        bump(c, "families_skipped_unbuildable_member", 1);
                        continue;
                    }
                    check_family(&rep, c, "alternation", &e.text, &e_dfa, &e.ast, &members, Law::Equal);
                },
                Kind::Rep { bounds, .. } => {
                    let Some((lo, hi)) = bounds.values() else { continue };
                    if let Some(h) = hi {
                        if lo > h || h == 0 {
                            continue;
                        }
                    }
                    let top = lo + 3;
                    // an open repetition: members up to lower+3; equality is still demanded on
                    // paths so short that more iterations are impossible (needs a body that
                    // consumes at least one character per iteration)
                    let body_min = match &astops::node_at(&e.ast, &path).kind {
                        Kind::Rep { body, .. } => min_len(body),
                        _ => 0,
                    };
                    let (upper, law) = match hi {
                        Some(h) if h <= top => (h, Law::Equal),
                        _ => (top, Law::IncludesAndEqualUpTo(if body_min >= 1 { (top.min(40)) as u8 } else { 0 })),
                    };
                    if upper > 6 {
                        continue;
                    }
                    let mut members = vec![];
                    let mut ok = true;
                    for n in lo..=upper {
                        let Some(s) = astops::rep_member(&e.ast, &path, n) else {
                            ok = false;
                            break;
                        };
                        if !s.is_empty() && !syntax::is_canonical(&s) {
                            ok = false;
                            break;
                        }
                        match member(syntax::to_text(&s)) {
                            Some(m) => members.push(m),
                            None => {
                                ok = false;
                                break;
                            },
                        }
                    }
                    if !ok {
                        bump(c, "families_skipped_unbuildable_member", 1);
                        continue;
                    }
                    // a tree wildcard whose position (sole / first / middle / last) depends on
                    // the number of iterations has no iteration-independent meaning (DESIGN U4)
                    if position_varies
                        || members.iter().any(|m| syntax::parse(&m.text).map_or(false, |a| astops::is_sole_tree(&a)) && !astops::is_sole_tree(&e.ast))
                    {
                        bump(c, "families_skipped_tree_position_varies", 1);
                        continue;
                    }
                    check_family(&rep, c, "repetition", &e.text, &e_dfa, &e.ast, &members, law);
                },
                _ => {},
            }
        }
        // (2) wrapping: {E}, <E:1>, <E:1,1> for the whole expression and top-level sub-sequences
        let n = e.ast.len();
        let esize = syntax::size(&e.ast);
        for i in 0..n {
            for j in (i + 1)..=n {
                let whole = i == 0 && j == n;
                if !whole && (esize > sub_wrap_max || e.pass == "position") {
                    continue;
                }
                if e.ast[j - 1].is_flag() {
                    continue;
                }
                // a wrapped sub-sequence that starts with flags is fine (flags stay inside)
                for how in 0..3 {
                    let w = astops::wrap(&e.ast, i, j, how);
                    if !syntax::is_canonical(&w) {
                        continue;
                    }
                    let Some(m) = member(syntax::to_text(&w)) else {
                        bump(c, "wraps_unbuildable", 1);
                        continue;
                    };
                    // law: L(wrapped) == L(E); family = (wrapped; [E])
                    let me = Member { text: e.text.clone(), dfa: Dfa::new_search(&e_dfa.pattern).unwrap() };
                    let w_ast = syntax::parse(&m.text).unwrap_or_default();
                    check_family(&rep, c, "wrapping", &m.text, &m.dfa, &w_ast, std::slice::from_ref(&me), Law::Equal);
                }
            }
        }
    });
    // (3) any = union, three construction routes
    let pool = any_pool(if tier == Tier::Thorough { 3 } else { 2 });
    let pool1 = any_pool(1);
    let pool2 = any_pool(2);
    let mut combos: Vec<Vec<&str>> = vec![];
    for (i, a) in pool.iter().enumerate() {
        combos.push(vec![a.as_str()]);
        if tier == Tier::Thorough {
            for b in pool1.iter() {
                combos.push(vec![a.as_str(), b.as_str()]);
            }
        }
        else {
            for b in pool.iter().skip(i) {
                combos.push(vec![a.as_str(), b.as_str()]);
            }
        }
    }
    if tier == Tier::Thorough {
        for (i, a) in pool2.iter().enumerate() {
            for b in pool2.iter().skip(i) {
                combos.push(vec![a.as_str(), b.as_str()]);
            }
        }
    }
    for a in &pool1 {
        for b in &pool1 {
            for d in &pool1 {
                combos.push(vec![a.as_str(), b.as_str(), d.as_str()]);
            }
        }
    }
    rep.add("any_combinations", combos.len() as u64);
    combos.par_iter().for_each(|combo| {
        let mut c = Counters::new();
        let r = guard(|| {
            let mut members = vec![];
            for t in combo.iter() {
                match member(t.to_string()) {
                    Some(m) => members.push(m),
                    None => return,
                }
            }
            for route in ["text", "compiled", "nested", "owned"] {
                let Some(any) = any_by_route(combo, route) else {
                    bump(&mut c, "any_rejected", 1);
                    continue;
                };
                let Ok(a_dfa) = model::dfa_of_any(&any) else { continue };
                // reuse check_family with the any as "whole": binding of the whole is validated
                // separately below because it is not a glob expression
                check_any(&rep, &mut c, route, combo, &any, &a_dfa, &members);
            }
        });
        if r.is_err() {
            bump(&mut c, "skipped_panics", 1);
        }
        rep.merge(&c);
    });
    // (4) a combinator of ONE pattern, for every expression of a program space, over the four
    // construction routes: it matches what the pattern wrapped in single-branch braces matches (the
    // combinator is such a wrapper; where the braces do not build - rooted patterns - the pattern
    // itself, unless it nests a tree wildcard). The routes rebuild the token tree (fold_map /
    // compose), which `Glob::new` never does.
    {
        let sopts = SpaceOpts { shape: tier.pick(3, 4), subst_single: 2, subst_pairs: 0, reduced: 0, corpus: true, letter_canonical: true, position: tier.pick(1, 2), position_full: tier.pick(0, 1), adjacent: false };
        for_each_glob(&rep, &sopts, &|e, g, c| {
            if e.pass == "partition" {
                return;
            }
            let wrapped = format!("{{{}}}", e.text);
            let reference: String = if model::build_ok(&wrapped).is_some() {
                wrapped
            }
            else if !astops::nested_tree(&e.ast, false) {
                e.text.clone()
            }
            else {
                bump(c, "single_any_skipped", 1);
                return;
            };
            let Some(m) = member(reference.clone()) else { return };
            let _ = g;
            let combo = [reference.as_str()];
            let pats = [e.text.as_str()];
            let routes: &[&'static str] = if tier == Tier::Thorough { &["text", "compiled", "nested", "owned"] } else { &["text", "owned"] };
            for route in routes.iter().copied() {
                let Some(any) = any_by_route(&pats, route) else {
                    bump(c, "any_rejected", 1);
                    continue;
                };
                bump(c, "single_any_checked", 1);
                // identical program text: identical language, nothing to explore
                let body = |t: &str| t.replace("(?:", "(").to_string();
                if body(any.verif_program_text()) == body(m.dfa.pattern.as_str()) {
                    bump(c, "single_any_same_program", 1);
                    continue;
                }
                let Ok(a_dfa) = model::dfa_of_any(&any) else { continue };
                check_any(&rep, c, route, &combo, &any, &a_dfa, std::slice::from_ref(&m));
            }
        });
    }
    finish_mc(&rep, &opts, "for every built expression: every alternation-substitution family, every repetition-unrolling family (equality for bounded, inclusion up to lower+3 for open bounds), every wrapping of the whole and of every top-level sub-sequence, and any() of pool members over 4 construction routes; all reachable tuples of the product of the implementation's own DFAs")
}

fn check_any(
    rep: &Report,
    c: &mut Counters,
    route: &'static str,
    combo: &[&str],
    any: &wax::Any<'_>,
    a_dfa: &Dfa,
    members: &[Member],
) {
    let mut dfas: Vec<&Dfa> = vec![a_dfa];
    for m in members {
        dfas.push(&m.dfa);
    }
    let pats: Vec<&str> = dfas.iter().map(|d| d.pattern.as_str()).collect();
    let Ok(alphabet) = automata::alphabet(&pats, &[]) else { return };
    let ex = model::explore_counted(c, &dfas, &NoMonitor, &alphabet);
    bump(c, "any_families", 1);
    let strings = model::access_strings(&ex);
    // all explored transitions: the BFS tree (one per state) and the cross edges
    let edges: Vec<(String, usize)> = (0..ex.states.len())
        .map(|i| (strings[i].clone(), i))
        .chain(ex.cross.iter().map(|(from, ch, to)| {
            let mut s = strings[*from as usize].clone();
            s.push(*ch);
            (s, *to as usize)
        }))
        .collect();
    let strings: Vec<String> = edges.iter().map(|e| e.0.clone()).collect();
    for (i, (_, to)) in edges.iter().enumerate() {
        let t = &ex.states[*to].0;
        let a_acc = automata::acc(&dfas, t, 0);
        bump(c, "traces_validated_against_impl", 1);
        let real = any.is_match(strings[i].as_str());
        if real != a_acc {
            bump(c, "binding_mismatches", 1);
        }
        let union = (1..dfas.len()).any(|k| automata::acc(&dfas, t, k));
        if real != union || a_acc != union {
            // confirm members through the API
            let ms: Vec<bool> = combo.iter().map(|m| Glob::new(m).map(|g| g.is_match(strings[i].as_str())).unwrap_or(false)).collect();
            let u = ms.iter().any(|x| *x);
            if real == u {
                bump(c, "unconfirmed_model_witnesses", 1);
                continue;
            }
            rep.alarm(Alarm {
                class: None,
                key: format!("any {} {:?}", route, combo),
                msg: format!(
                    "any({:?}) built from {} patterns is not the union on path {:?}: any={} members={:?}",
                    combo, route, strings[i], real, ms
                ),
                case: json!({"kind": "family", "law": "any", "whole": format!("any({:?})", combo), "whole_is_any": true,
                             "route": route, "members": combo, "path": strings[i]}),
            });
            break;
        }
    }
}

/// minimal number of characters a sequence consumes
fn min_len(seq: &Seq) -> usize {
    seq.iter()
        .map(|n| match &n.kind {
            Kind::Lit(t) => t.chars().count(),
            Kind::Sep | Kind::One | Kind::Class { .. } => 1,
            Kind::Zom(_) | Kind::Tree { .. } | Kind::Flag(_) => 0,
            Kind::Alt(bs) => bs.iter().map(min_len).min().unwrap_or(0),
            Kind::Rep { body, bounds } => bounds.values().map_or(0, |(lo, _)| lo) * min_len(body),
        })
        .sum()
}

#[allow(dead_code)]
fn unused(_: Bounds) {}
