//! C03 (negated walks), C13 (discarded trees are never read, only they are skipped) and C16
//! (filters compose): stateless exhaustive exploration of combinator stacks and filter verdict
//! histories over real walks of enumerated worlds.

use rayon::prelude::*;
use refmodel::automata::{self, Dfa};
use refmodel::fsworld::{self, World};
use serde_json::{json, Value};
use std::cell::RefCell;
use std::collections::{BTreeMap, BTreeSet};
use std::path::{Path, PathBuf};
use wax::walk::{Entry, EntryResidue, FileIterator, PathExt};
use wax::{Glob, Program};

use crate::common::{guard, Alarm, Report, Tier};
use crate::fswalk::{self, Place, Scratch};
use crate::model::{bump, Counters};
use crate::props_fs::{fs_globs, world_from_json, world_json, NAMES};

#[derive(Clone, Copy, Debug, PartialEq, Eq, PartialOrd, Ord, Hash)]
pub enum Verdict {
    File,
    Tree,
}

#[derive(Clone, Debug, PartialEq, Eq, PartialOrd, Ord, Hash)]
pub enum NotForm {
    Text,
    Compiled,
    Owned,
    /// any([p, q]) given as text
    AnyText(String),
    /// any([any([p]), any([q])])
    AnyNested(String),
}

#[derive(Clone, Debug, PartialEq, Eq, PartialOrd, Ord, Hash)]
pub enum Layer {
    /// user filter with scripted verdicts, identified by its id
    Filter(usize),
    Not(String, NotForm),
}

impl Layer {
    pub fn describe(&self) -> String {
        match self {
            Layer::Filter(i) => format!("filter_entry(f{})", i),
            Layer::Not(p, NotForm::Text) => format!("not({:?})", p),
            Layer::Not(p, NotForm::Compiled) => format!("not(Glob({:?}))", p),
            Layer::Not(p, NotForm::Owned) => format!("not(Glob({:?}).into_owned())", p),
            Layer::Not(p, NotForm::AnyText(q)) => format!("not(any([{:?}, {:?}]))", p, q),
            Layer::Not(p, NotForm::AnyNested(q)) => format!("not(any([any([{:?}]), any([{:?}])]))", p, q),
        }
    }
    fn to_json(&self) -> Value {
        match self {
            Layer::Filter(i) => json!({"filter": i}),
            Layer::Not(p, f) => json!({"not": p, "form": match f {
                NotForm::Text => json!("text"),
                NotForm::Compiled => json!("compiled"),
                NotForm::Owned => json!("owned"),
                NotForm::AnyText(q) => json!({"any_text": q}),
                NotForm::AnyNested(q) => json!({"any_nested": q}),
            }}),
        }
    }
    fn from_json(v: &Value) -> Layer {
        if let Some(i) = v["filter"].as_u64() {
            return Layer::Filter(i as usize);
        }
        let p = v["not"].as_str().unwrap_or("").to_string();
        let form = match &v["form"] {
            Value::String(s) if s == "compiled" => NotForm::Compiled,
            Value::String(s) if s == "owned" => NotForm::Owned,
            Value::Object(o) if o.contains_key("any_text") => NotForm::AnyText(o["any_text"].as_str().unwrap().to_string()),
            Value::Object(o) if o.contains_key("any_nested") => NotForm::AnyNested(o["any_nested"].as_str().unwrap().to_string()),
            _ => NotForm::Text,
        };
        Layer::Not(p, form)
    }
    /// the patterns of a negation
    fn patterns(&self) -> Vec<&str> {
        match self {
            Layer::Filter(_) => vec![],
            Layer::Not(p, NotForm::AnyText(q)) | Layer::Not(p, NotForm::AnyNested(q)) => vec![p.as_str(), q.as_str()],
            Layer::Not(p, _) => vec![p.as_str()],
        }
    }
}

/// (filter id, tree-relative path) -> verdict other than keep
pub type History = BTreeMap<(usize, String), Verdict>;

#[derive(Clone, Debug, PartialEq, Eq, PartialOrd, Ord, Hash)]
pub enum BaseWalk {
    Path,
    Glob(String),
}

impl BaseWalk {
    pub fn describe(&self) -> String {
        match self {
            BaseWalk::Path => "Path::walk".to_string(),
            BaseWalk::Glob(g) => format!("Glob({:?}).walk", g),
        }
    }
}

#[derive(Clone, Debug, Default, PartialEq, Eq)]
pub struct Run {
    /// tree-relative paths yielded as Ok items, in order
    pub yielded: Vec<String>,
    /// everything the terminal pass-through filter was fed, in order
    pub fed: Vec<String>,
    /// per filter id: the entries it was called with, in order
    pub calls: BTreeMap<usize, Vec<String>>,
    pub errors: usize,
    /// (tree-relative path, root-relative path as the entry reports it) of every entry seen by
    /// the terminal filter
    pub reported_rel: Vec<(String, String)>,
    /// every item in order: (is Ok, tree-relative path, is a link cycle error, reported depth)
    pub sequence: Vec<(bool, String, bool, usize)>,
    /// error items whose conversion to `io::Error` no longer names the offending path
    pub io_conversion_lost: Vec<String>,
}

struct Ctx<'a> {
    layers: &'a [Layer],
    history: &'a History,
    log: &'a RefCell<Run>,
    tree_root: &'a Path,
    /// false: the outermost layer of the stack is consumed directly (its `Iterator::next` drives
    /// the walk), no terminal logging filter above it
    terminal: bool,
}

fn tree_rel(ctx: &Ctx<'_>, p: &Path) -> String {
    fswalk::rel_text(p, ctx.tree_root).unwrap_or_else(|| format!("<outside:{}>", p.display()))
}

fn finish_walk<I, T, R>(it: I, ctx: &Ctx<'_>) -> Result<(), String>
where
    T: 'static + Entry,
    R: 'static + Entry + From<T>,
    I: FileIterator<Entry = T, Residue = R>,
{
    if !ctx.terminal {
        return consume(it, ctx);
    }
    // terminal pass-through filter: logs everything fed
    let it = it.filter_entry(|e: &dyn Entry| {
        let t = tree_rel(ctx, e.path());
        let mut log = ctx.log.borrow_mut();
        log.fed.push(t.clone());
        log.reported_rel.push((t, e.root_relative_paths().1.to_string_lossy().to_string()));
        None
    });
    consume(it, ctx)
}

fn consume<I, T>(it: I, ctx: &Ctx<'_>) -> Result<(), String>
where
    T: 'static + Entry,
    I: Iterator<Item = Result<T, wax::walk::WalkError>>,
{
    let mut n = 0;
    for item in it {
        n += 1;
        if n > 2000 {
            return Err("walk does not terminate (item cap hit)".into());
        }
        match item {
            Ok(e) => {
                let t = tree_rel(ctx, e.path());
                let mut log = ctx.log.borrow_mut();
                log.sequence.push((true, t.clone(), false, e.depth()));
                log.yielded.push(t);
            },
            Err(err) => {
                let mut log = ctx.log.borrow_mut();
                log.errors += 1;
                let t = err.path().map(|p| tree_rel(ctx, p)).unwrap_or_else(|| "<no path>".to_string());
                let is_loop = format!("{}", err).contains("cycle");
                log.sequence.push((false, t.clone(), is_loop, err.depth()));
                // the error item converted to an `io::Error` (as `?` does in a function returning
                // io::Result) still names the offending path
                if let Some(p) = err.path().map(|p| p.to_path_buf()) {
                    let io: std::io::Error = err.into();
                    let name = p.file_name().map(|n| n.to_string_lossy().to_string()).unwrap_or_default();
                    if !name.is_empty() && !io.to_string().contains(&name) {
                        log.io_conversion_lost.push(format!("{} -> {:?}", t, io.to_string()));
                    }
                }
            },
        }
    }
    Ok(())
}

macro_rules! level {
    ($name:ident, $next:ident) => {
        fn $name<I, T, R>(it: I, ctx: &Ctx<'_>, idx: usize) -> Result<(), String>
        where
            T: 'static + Entry,
            R: 'static + Entry + From<T>,
            I: FileIterator<Entry = T, Residue = R>,
        {
            if idx >= ctx.layers.len() {
                return finish_walk(it, ctx);
            }
            match &ctx.layers[idx] {
                Layer::Filter(id) => {
                    let id = *id;
                    let it = it.filter_entry(move |e: &dyn Entry| {
                        let t = tree_rel(ctx, e.path());
                        ctx.log.borrow_mut().calls.entry(id).or_default().push(t.clone());
                        match ctx.history.get(&(id, t)) {
                            Some(Verdict::File) => Some(EntryResidue::File),
                            Some(Verdict::Tree) => Some(EntryResidue::Tree),
                            None => None,
                        }
                    });
                    $next(it, ctx, idx + 1)
                },
                Layer::Not(p, form) => match form {
                    NotForm::Text => $next(it.not(p.as_str()).map_err(|e| format!("{}", e))?, ctx, idx + 1),
                    NotForm::Compiled => {
                        let g = Glob::new(p).map_err(|e| format!("{}", e))?;
                        $next(it.not(g).map_err(|e| format!("{}", e))?, ctx, idx + 1)
                    },
                    NotForm::Owned => {
                        let g = Glob::new(p).map_err(|e| format!("{}", e))?.into_owned();
                        $next(it.not(g).map_err(|e| format!("{}", e))?, ctx, idx + 1)
                    },
                    NotForm::AnyText(q) => {
                        let a = wax::any([p.as_str(), q.as_str()]).map_err(|e| format!("{}", e))?;
                        $next(it.not(a).map_err(|e| format!("{}", e))?, ctx, idx + 1)
                    },
                    NotForm::AnyNested(q) => {
                        let a = wax::any([
                            wax::any([p.as_str()]).map_err(|e| format!("{}", e))?,
                            wax::any([q.as_str()]).map_err(|e| format!("{}", e))?,
                        ])
                        .map_err(|e| format!("{}", e))?;
                        $next(it.not(a).map_err(|e| format!("{}", e))?, ctx, idx + 1)
                    },
                },
            }
        }
    };
}

fn level_end<I, T, R>(it: I, ctx: &Ctx<'_>, _idx: usize) -> Result<(), String>
where
    T: 'static + Entry,
    R: 'static + Entry + From<T>,
    I: FileIterator<Entry = T, Residue = R>,
{
    finish_walk(it, ctx)
}

level!(level1, level_end);
level!(level2, level1);
level!(level3, level2);

pub const MAX_STACK: usize = 3;

/// Executes one stack with one history over one base walk in a built world.
pub fn execute(place: &Place, base: &BaseWalk, layers: &[Layer], history: &History) -> Result<Run, String> {
    execute_with(place, base, layers, history, wax::walk::LinkBehavior::ReadFile)
}

pub fn execute_with(
    place: &Place,
    base: &BaseWalk,
    layers: &[Layer],
    history: &History,
    link: wax::walk::LinkBehavior,
) -> Result<Run, String> {
    execute_mode(place, base, layers, history, link, true)
}

/// The same stack consumed directly: the outermost layer's own `Iterator::next` drives the walk
/// (with the terminal logging filter every layer is driven through `feed` instead). `fed` and
/// `reported_rel` stay empty.
pub fn execute_bare(
    place: &Place,
    base: &BaseWalk,
    layers: &[Layer],
    history: &History,
    link: wax::walk::LinkBehavior,
) -> Result<Run, String> {
    execute_mode(place, base, layers, history, link, false)
}

/// What the directly consumed stack does differently from the logged one, if anything: a
/// pass-through filter on top of a stack changes neither the items nor what any layer observes.
pub fn bare_difference(logged: &Run, bare: &Run) -> Option<String> {
    if logged.sequence != bare.sequence {
        return Some(format!("items {:?} when consumed directly, {:?} beneath a pass-through filter", bare.sequence.iter().map(|i| (i.0, i.1.as_str())).collect::<Vec<_>>(), logged.sequence.iter().map(|i| (i.0, i.1.as_str())).collect::<Vec<_>>()));
    }
    if logged.calls != bare.calls {
        return Some(format!("filters observe {:?} when the stack is consumed directly, {:?} beneath a pass-through filter", bare.calls, logged.calls));
    }
    None
}

fn execute_mode(
    place: &Place,
    base: &BaseWalk,
    layers: &[Layer],
    history: &History,
    link: wax::walk::LinkBehavior,
    terminal: bool,
) -> Result<Run, String> {
    assert!(layers.len() <= MAX_STACK);
    let log = RefCell::new(Run::default());
    let ctx = Ctx { layers, history, log: &log, tree_root: &place.abs, terminal };
    let r = guard(|| match base {
        BaseWalk::Path => level3(place.abs.as_path().walk_with_behavior(link), &ctx, 0),
        BaseWalk::Glob(g) => {
            let glob = Glob::new(g).map_err(|e| format!("{}", e))?;
            if !glob.has_root().is_never() {
                return Err("SKIP rooted base glob".to_string());
            }
            level3(glob.walk_with_behavior(place.abs.clone(), link), &ctx, 0)
        },
    });
    match r {
        Ok(Ok(())) => Ok(log.into_inner()),
        Ok(Err(e)) => Err(e),
        Err(p) => Err(format!("panic: {}", p)),
    }
}

/// Walks a ROOTED glob made of the world's own absolute path followed by `pattern` (no layers):
/// what the walker feeds downstream and yields. The given directory is ignored by a rooted glob.
pub fn execute_rooted(place: &Place, pattern: &str, link: wax::walk::LinkBehavior) -> Result<(Run, String), String> {
    let abs = place.abs.to_str().ok_or_else(|| "scratch path is not UTF-8".to_string())?;
    let text = format!("{}/{}", wax::escape(abs), pattern);
    let log = RefCell::new(Run::default());
    let history = History::new();
    let ctx = Ctx { layers: &[], history: &history, log: &log, tree_root: &place.abs, terminal: true };
    let r = guard(|| {
        let glob = Glob::new(&text).map_err(|e| format!("{}", e))?;
        // never walk outside the scratch area (a rooted glob with a variant first component
        // would traverse the machine's real root)
        let (root, _) = glob.verif_walk_anchor("/waxmc-nonexistent-base");
        if !root.starts_with(&place.abs) {
            return Err(format!("SKIP traversal root {:?} outside the scratch area", root));
        }
        level3(glob.walk_with_behavior("/waxmc-nonexistent-base", link), &ctx, 0)
    });
    match r {
        Ok(Ok(())) => Ok((log.into_inner(), text)),
        Ok(Err(e)) => Err(e),
        Err(p) => Err(format!("panic: {}", p)),
    }
}

/// What a glob walk must feed downstream, from the reference traversal and the glob's own
/// per-component programs (hook H2): every entry that is not beneath a directory whose component
/// fails its program (such a directory is itself still produced, as residue). `rooted`: the glob
/// starts with the world's absolute path. None if the invariant prefix does not name a real,
/// reachable directory of the world.
/// The same entries, each as often, in whatever order (no property fixes the order in which a
/// directory's children are visited).
pub fn same_entries(a: &[String], b: &[String]) -> bool {
    let mut x = a.to_vec();
    let mut y = b.to_vec();
    x.sort();
    y.sort();
    x == y
}

pub fn glob_feed_expectation(world: &World, abs: &Path, glob: &Glob<'_>, rooted: bool, follow: bool) -> Option<Vec<String>> {
    glob_feed_expectation_justified(world, abs, glob, rooted, follow).map(|(fed, _)| fed)
}

/// As above, plus the directories that the component programs cut although the glob itself (its
/// complete program, all canonical paths beneath the directory) CAN match something beneath them:
/// "a directory is discarded as a tree because a glob's component cannot match it" is then false.
pub fn glob_feed_expectation_justified(world: &World, abs: &Path, glob: &Glob<'_>, rooted: bool, follow: bool) -> Option<(Vec<String>, Vec<String>)> {
    use std::path::Component;
    let complete = Dfa::new_search(glob.verif_program_text()).ok();
    let mut unjustified: Vec<String> = vec![];
    let pruner = crate::props_links::Pruner::of(glob)?;
    let prefix = glob.clone().partition().0;
    let rel_prefix: PathBuf = if rooted { prefix.strip_prefix(abs).ok()?.to_path_buf() } else { prefix };
    let mut prefix_comps: Vec<String> = vec![];
    for c in rel_prefix.components() {
        match c {
            Component::Normal(n) => prefix_comps.push(n.to_string_lossy().to_string()),
            _ => return None,
        }
    }
    let comps: Vec<&str> = prefix_comps.iter().map(|s| s.as_str()).collect();
    let start = fsworld::find(world, &comps)?;
    for k in 0..=start.len() {
        if !matches!(fsworld::node_at(world, &start[..k]).map(|n| &n.kind), Some(fsworld::FKind::Dir { readable: true, .. })) {
            return None;
        }
    }
    let lead: Vec<String> = if rooted {
        abs.components().filter_map(|c| if let Component::Normal(n) = c { Some(n.to_string_lossy().to_string()) } else { None }).collect()
    }
    else {
        vec![]
    };
    let mut out = vec![];
    let mut cut: Vec<Vec<String>> = vec![];
    for it in fsworld::traverse(world, &start, follow) {
        let mut full = prefix_comps.clone();
        full.extend(it.rel().iter().cloned());
        if cut.iter().any(|c| full.len() > c.len() && full[..c.len()] == c[..]) {
            continue;
        }
        if let fsworld::RItem::Entry { kind, .. } = &it {
            out.push(full.join("/"));
            if *kind == fsworld::EKind::Dir {
                let mut all = lead.clone();
                all.extend(full.iter().cloned());
                if pruner.mismatch(&all) {
                    let candidate = if rooted { format!("/{}", all.join("/")) } else { all.join("/") };
                    if complete.as_ref().map_or(false, |d| d.accepts_something_beneath(&candidate)) {
                        unjustified.push(full.join("/"));
                    }
                    cut.push(full);
                }
            }
        }
    }
    Some((out, unjustified))
}

// ---------------------------------------------------------------------------------------------
// Model
// ---------------------------------------------------------------------------------------------

pub struct NotModel {
    pub exhaustive: Option<Dfa>,
    pub nonexhaustive: Option<Dfa>,
    pub whole: Vec<String>,
    /// the negation pattern as a real combinator (per-entry oracle)
    pub any: wax::Any<'static>,
}

impl NotModel {
    pub fn new(layer: &Layer) -> Option<NotModel> {
        let pats = layer.patterns();
        // the negation is installed through the very route the layer takes in a real walk
        let (e, n) = Self::installed_texts(layer)?;
        let owned = wax::any(pats.iter().map(|p| Glob::new(p).map(Glob::into_owned))).ok()?;
        Some(NotModel {
            any: owned,
            exhaustive: e.and_then(|t| Dfa::new_search(&t).ok()),
            nonexhaustive: n.and_then(|t| Dfa::new_search(&t).ok()),
            whole: pats.iter().map(|s| s.to_string()).collect(),
        })
    }
    /// texts of the partition programs that `not` installs for this layer (hook H3)
    pub fn installed_texts(layer: &Layer) -> Option<(Option<String>, Option<String>)> {
        let walk = || Path::new("/nonexistent-base").walk();
        let Layer::Not(p, form) = layer else { return None };
        Some(match form {
            NotForm::Text => walk().not(p.as_str()).ok()?.verif_partition_texts(),
            NotForm::Compiled => walk().not(Glob::new(p).ok()?).ok()?.verif_partition_texts(),
            NotForm::Owned => walk().not(Glob::new(p).ok()?.into_owned()).ok()?.verif_partition_texts(),
            NotForm::AnyText(q) => walk().not(wax::any([p.as_str(), q.as_str()]).ok()?).ok()?.verif_partition_texts(),
            NotForm::AnyNested(q) => walk()
                .not(wax::any([wax::any([p.as_str()]).ok()?, wax::any([q.as_str()]).ok()?]).ok()?)
                .ok()?
                .verif_partition_texts(),
        })
    }
    /// verdict the installed partition programs give for a root-relative path
    pub fn installed(&self, rel: &str) -> Option<Verdict> {
        if self.exhaustive.as_ref().map_or(false, |d| d.accepts(rel)) {
            Some(Verdict::Tree)
        }
        else if self.nonexhaustive.as_ref().map_or(false, |d| d.accepts(rel)) {
            Some(Verdict::File)
        }
        else {
            None
        }
    }
}

pub struct Expected {
    pub fed: Vec<String>,
    pub yielded: Vec<String>,
}

/// Pruned-tree model (DESIGN Appendix C). `base_fed` / `base_yielded` are what the base walk
/// alone feeds / yields (in order); `is_dir` tells directories; `verdict(layer index, entry)`.
pub fn model(
    base_fed: &[String],
    base_yielded: &BTreeSet<String>,
    dirs: &BTreeSet<String>,
    nlayers: usize,
    verdict: &dyn Fn(usize, &str, bool) -> Option<Verdict>,
) -> Expected {
    let mut fed = vec![];
    let mut yielded = vec![];
    let mut cut: Vec<String> = vec![]; // directories discarded as trees
    for e in base_fed {
        let beneath_cut = cut.iter().any(|d| {
            if d.is_empty() {
                !e.is_empty()
            }
            else {
                e.len() > d.len() && e.starts_with(d.as_str()) && e.as_bytes()[d.len()] == b'/'
            }
        });
        if beneath_cut {
            continue;
        }
        fed.push(e.clone());
        let mut keep = true;
        for l in 0..nlayers {
            // the flag tells whether the entry reaches this layer as filtrate (kept by the base
            // walk and by every layer before this one); only the mirror of a recorded finding
            // looks at it
            match verdict(l, e, keep && base_yielded.contains(e)) {
                None => {},
                Some(Verdict::File) => keep = false,
                Some(Verdict::Tree) => {
                    keep = false;
                    if dirs.contains(e) && !cut.contains(e) {
                        cut.push(e.clone());
                    }
                },
            }
        }
        if keep && base_yielded.contains(e) {
            yielded.push(e.clone());
        }
    }
    Expected { fed, yielded }
}

fn dirs_of(world: &World) -> BTreeSet<String> {
    let mut d: BTreeSet<String> = BTreeSet::new();
    d.insert(String::new());
    for (rel, is_dir) in crate::props_fs::all_entries(world) {
        if is_dir {
            d.insert(rel);
        }
    }
    d
}

/// Directories as a walk that reads link targets sees them: real directories and followed links to
/// directories (the reference traversal with walkdir's link policy).
fn dirs_following(world: &World) -> BTreeSet<String> {
    let mut d: BTreeSet<String> = BTreeSet::new();
    for it in fsworld::traverse(world, &[], true) {
        if let fsworld::RItem::Entry { rel, kind: fsworld::EKind::Dir } = it {
            d.insert(rel.join("/"));
        }
    }
    d
}

fn with_follow(mut case: Value, follow: bool) -> Value {
    case["follow"] = json!(follow);
    case
}

fn case_json(world: &World, base: &BaseWalk, layers: &[Layer], history: &History) -> Value {
    json!({
        "kind": "stack",
        "world": world_json(world),
        "base": match base { BaseWalk::Path => Value::Null, BaseWalk::Glob(g) => json!(g) },
        "layers": layers.iter().map(|l| l.to_json()).collect::<Vec<_>>(),
        "history": history.iter().map(|((id, p), v)| json!({"filter": id, "entry": p, "verdict": match v { Verdict::File => "File", Verdict::Tree => "Tree" }})).collect::<Vec<_>>(),
    })
}

fn history_text(h: &History) -> String {
    if h.is_empty() {
        return "all keep".to_string();
    }
    h.iter()
        .map(|((id, p), v)| format!("f{}({:?})={:?}", id, p, v))
        .collect::<Vec<_>>()
        .join(", ")
}

/// base-relative path of a tree-relative path (the base is the tree root in every run here)
fn base_rel(tree_rel: &str) -> &str {
    tree_rel
}

struct Judged {
    problems_c13: Vec<String>,
    problems_c16: Vec<String>,
    problems_c03: Vec<String>,
    class: Option<String>,
    /// the run is exactly what the mirror of `residue-relative-to-traversal-root` predicts
    residue_mirror: bool,
}

/// Compares one run with the model.
fn judge(
    world: &World,
    base: &BaseWalk,
    base_run: &Run,
    layers: &[Layer],
    history: &History,
    not_models: &BTreeMap<usize, &NotModel>,
    run: &Run,
    follow: bool,
) -> Judged {
    let dirs = if follow { dirs_following(world) } else { dirs_of(world) };
    let base_yielded: BTreeSet<String> = base_run.yielded.iter().cloned().collect();
    // verdict per layer: filters from the history; negations per entry from the pattern itself
    // (per-entry semantics: matched => discarded; a tree discard is what the installed
    // exhaustive partition asks for)
    let verdict = |l: usize, e: &str, _filtrate: bool| -> Option<Verdict> {
        match &layers[l] {
            Layer::Filter(id) => history.get(&(*id, e.to_string())).copied(),
            Layer::Not(..) => not_models.get(&l).and_then(|m| m.installed(base_rel(e))),
        }
    };
    let exp = model(&base_run.fed, &base_yielded, &dirs, layers.len(), &verdict);
    let mut j = Judged { problems_c13: vec![], problems_c16: vec![], problems_c03: vec![], class: None, residue_mirror: false };
    // Mirror of the recorded finding `residue-relative-to-traversal-root` (D5): over a glob walk
    // with a non-empty invariant prefix, an entry that reaches a negation as residue (discarded
    // by the walker or by an earlier layer) is matched by its path relative to the traversal
    // root (base joined with the prefix) instead of the base. A run is attributed to the finding
    // only if this mirror reproduces everything observed (fed, calls, yielded).
    let pivot = match base {
        BaseWalk::Glob(g) => Glob::new(g).map_or(0, |g| g.clone().partition().0.components().count()),
        BaseWalk::Path => 0,
    };
    if pivot > 0 && layers.iter().any(|l| matches!(l, Layer::Not(..))) {
        let strip = |e: &str| -> String { e.split('/').skip(pivot).collect::<Vec<_>>().join("/") };
        let verdict_d5 = |l: usize, e: &str, filtrate: bool| -> Option<Verdict> {
            match &layers[l] {
                Layer::Filter(id) => history.get(&(*id, e.to_string())).copied(),
                Layer::Not(..) => not_models.get(&l).and_then(|m| if filtrate { m.installed(base_rel(e)) } else { m.installed(&strip(e)) }),
            }
        };
        let exp5 = model(&base_run.fed, &base_yielded, &dirs, layers.len(), &verdict_d5);
        let calls_ok = layers.iter().all(|l| match l {
            Layer::Filter(id) => run.calls.get(id).cloned().unwrap_or_default() == exp5.fed,
            _ => true,
        });
        j.residue_mirror = run.fed == exp5.fed && run.yielded == exp5.yielded && calls_ok;
    }
    // C13: the terminal consumer is fed exactly the pruned tree
    if run.fed != exp.fed {
        let extra: Vec<&String> = run.fed.iter().filter(|e| !exp.fed.contains(e)).collect();
        let missing: Vec<&String> = exp.fed.iter().filter(|e| !run.fed.contains(e)).collect();
        let dup = run.fed.len() != run.fed.iter().collect::<BTreeSet<_>>().len();
        j.problems_c13.push(format!(
            "downstream consumer was fed {:?}, the pruned tree is {:?} (beneath a discarded tree: {:?}; skipped though not beneath one: {:?}{})",
            run.fed, exp.fed, extra, missing, if dup { "; duplicates" } else { "" }
        ));
    }
    // C16: every filter layer observes every fed entry exactly once; yielded = kept by all
    for l in layers {
        if let Layer::Filter(id) = l {
            let calls = run.calls.get(id).cloned().unwrap_or_default();
            if calls != exp.fed {
                j.problems_c16.push(format!("filter f{} was called with {:?}, expected exactly the fed entries {:?}", id, calls, exp.fed));
            }
        }
    }
    if run.yielded != exp.yielded {
        j.problems_c16.push(format!("yielded {:?}, but the entries every layer keeps are {:?}", run.yielded, exp.yielded));
    }
    // C03: per-entry semantics of every negation: result identical to filtering each entry of
    // the underlying walk individually with is_match on the base-relative path
    if layers.iter().all(|l| matches!(l, Layer::Not(..))) && history.is_empty() {
        let mut per_entry: Vec<String> = vec![];
        for e in &base_run.yielded {
            let mut keep = true;
            for (li, _) in layers.iter().enumerate() {
                if let Some(m) = not_models.get(&li) {
                    if m.any.is_match(base_rel(e)) {
                        keep = false;
                    }
                }
            }
            if keep {
                per_entry.push(e.clone());
            }
        }
        if run.yielded != per_entry {
            j.problems_c03.push(format!(
                "yielded {:?}, but filtering each entry of the underlying walk individually gives {:?}",
                run.yielded, per_entry
            ));
            // classification of recorded findings
            let prefixed = match base {
                BaseWalk::Glob(g) => Glob::new(g).map_or(false, |g| !g.clone().partition().0.as_os_str().is_empty()),
                BaseWalk::Path => false,
            };
            let asts: Vec<refmodel::syntax::Seq> = layers
                .iter()
                .flat_map(|l| l.patterns())
                .filter_map(|p| refmodel::syntax::parse(p).ok())
                .collect();
            let missing: Vec<&String> = per_entry.iter().filter(|e| !run.yielded.contains(e)).collect();
            let extra: Vec<&String> = run.yielded.iter().filter(|e| !per_entry.contains(e)).collect();
            // every missing entry lies beneath a directory that the installed exhaustive
            // partition matches: attributed to the exhaustiveness findings (C09 classes)
            let beneath_exhaustive = !missing.is_empty()
                && extra.is_empty()
                && missing.iter().all(|m| {
                    let mut anc: Vec<&str> = vec![""];
                    for (i, b) in m.bytes().enumerate() {
                        if b == b'/' {
                            anc.push(&m[..i]);
                        }
                    }
                    anc.iter().any(|a| {
                        not_models.values().any(|nm| nm.installed(a) == Some(Verdict::Tree))
                            && crate::props_query::c09_class(&asts, a).is_some()
                            && crate::props_query::some_alternative_claims_always(&asts, a)
                    })
                });
            if prefixed && j.residue_mirror {
                j.class = Some("residue-relative-to-traversal-root".into());
            }
            else if beneath_exhaustive {
                let root_only = missing.iter().all(|_| not_models.values().any(|nm| nm.installed("") == Some(Verdict::Tree)));
                j.class = Some(if root_only { "exhaustive-at-empty-or-root-path".into() } else { "exhaustive-with-branch-in-tail".into() });
            }
        }
    }
    j
}

// ---------------------------------------------------------------------------------------------
// Exploration
// ---------------------------------------------------------------------------------------------

fn permutations<T: Clone>(v: &[T]) -> Vec<Vec<T>> {
    if v.len() <= 1 {
        return vec![v.to_vec()];
    }
    let mut out = vec![];
    for i in 0..v.len() {
        let mut rest = v.to_vec();
        let x = rest.remove(i);
        for mut p in permutations(&rest) {
            p.insert(0, x.clone());
            out.push(p);
        }
    }
    out
}

pub struct Plan {
    pub worlds: Vec<World>,
    pub bases: Vec<BaseWalk>,
    /// sets of layers (canonical order); every permutation is run
    pub stacks: Vec<Vec<Layer>>,
    pub deviations: usize,
    /// read link targets (walkdir follows links) instead of reading links as files
    pub follow: bool,
}

fn subsets_up_to(menu: &[Layer], max: usize) -> Vec<Vec<Layer>> {
    let mut out = vec![];
    let n = menu.len();
    for mask in 1u32..(1 << n) {
        if (mask.count_ones() as usize) > max {
            continue;
        }
        out.push((0..n).filter(|i| mask & (1 << i) != 0).map(|i| menu[i].clone()).collect());
    }
    out
}

pub fn plan_histories(tier: Tier) -> Vec<Plan> {
    let menu = vec![
        Layer::Filter(0),
        Layer::Filter(1),
        Layer::Not("a/**".into(), NotForm::Text),
        Layer::Not("**/b".into(), NotForm::Text),
        Layer::Not(".a/**".into(), NotForm::Text),
        // a partitioned negation: the directory `a` matches the exhaustive AND the
        // nonexhaustive alternative
        Layer::Not("a/**".into(), NotForm::AnyText("**/a".into())),
    ];
    let bases = vec![
        BaseWalk::Path,
        BaseWalk::Glob("**".into()),
        BaseWalk::Glob("*/*".into()),
        BaseWalk::Glob("a/**".into()),
        BaseWalk::Glob("{a,b}/**".into()),
    ];
    // worlds with symbolic links (read as files): a tree verdict on a link must remove nothing
    let link_menu = vec![
        Layer::Filter(0),
        Layer::Filter(1),
        Layer::Not("l/**".into(), NotForm::Text),
        Layer::Not("**/l".into(), NotForm::Text),
    ];
    let link_plan = |max_entries: usize, k: usize, follow: bool| Plan {
        worlds: crate::props_links::link_worlds(Tier::Quick).into_iter().filter(|w| w.entries() <= max_entries && w.describe().contains("->")).collect(),
        bases: vec![BaseWalk::Path, BaseWalk::Glob("**".into()), BaseWalk::Glob("{a,b}/**".into())],
        stacks: subsets_up_to(&link_menu, 2),
        deviations: k,
        follow,
    };
    match tier {
        Tier::Quick => vec![
            Plan { worlds: fsworld::worlds(3, &NAMES, 3), bases, stacks: subsets_up_to(&menu, 2), deviations: 2, follow: false },
            link_plan(3, 1, false),
            // reading link targets: a tree verdict on a followed link to a directory must prune
            // everything beneath the link (and nothing else)
            link_plan(3, 1, true),
        ],
        Tier::Thorough => {
            let mut menu3 = menu.clone();
            menu3.push(Layer::Filter(2));
            vec![
                // deep stacks and histories on the small worlds
                Plan { worlds: fsworld::worlds(3, &NAMES, 3), bases: bases.clone(), stacks: subsets_up_to(&menu3, 2), deviations: 3, follow: false },
                Plan { worlds: fsworld::worlds(3, &NAMES, 3), bases: bases.clone(), stacks: subsets_up_to(&menu3, 3).into_iter().filter(|s| s.len() == 3).collect(), deviations: 2, follow: false },
                // larger worlds, shallower stacks and histories
                Plan { worlds: fsworld::worlds(4, &NAMES, 3), bases: bases.clone(), stacks: subsets_up_to(&menu, 2), deviations: 2, follow: false },
                Plan { worlds: fsworld::worlds(5, &["a", "b"], 4), bases: bases.clone(), stacks: subsets_up_to(&menu, 2), deviations: 1, follow: false },
                Plan { worlds: fsworld::worlds(6, &["a", "b"], 5), bases, stacks: subsets_up_to(&menu, 1), deviations: 1, follow: false },
                link_plan(4, 2, false),
                link_plan(4, 2, true),
            ]
        },
    }
}

/// All histories with at most `k` deviations for the given stack, found by stateless
/// re-execution: run, then branch on every call made after the last deviation.
#[allow(clippy::too_many_arguments)]
fn explore_histories(
    place: &Place,
    base: &BaseWalk,
    layers: &[Layer],
    k: usize,
    history: &mut History,
    last: Option<(usize, usize)>,
    visit: &mut dyn FnMut(&History, &Run),
    c: &mut Counters,
    link: wax::walk::LinkBehavior,
) {
    let run = match execute_with(place, base, layers, history, link) {
        Ok(r) => r,
        Err(_) => return,
    };
    bump(c, "executions", 1);
    visit(history, &run);
    if history.len() >= k {
        return;
    }
    // choice points: (filter id, position in its call log)
    let filter_ids: Vec<usize> = layers.iter().filter_map(|l| if let Layer::Filter(i) = l { Some(*i) } else { None }).collect();
    for id in filter_ids {
        let calls = run.calls.get(&id).cloned().unwrap_or_default();
        for (pos, entry) in calls.iter().enumerate() {
            // canonical order of deviations: (filter id, call position) strictly increasing
            if let Some((lid, lpos)) = last {
                if (id, pos) <= (lid, lpos) {
                    continue;
                }
            }
            if history.contains_key(&(id, entry.clone())) {
                continue;
            }
            for v in [Verdict::File, Verdict::Tree] {
                history.insert((id, entry.clone()), v);
                explore_histories(place, base, layers, k, history, Some((id, pos)), visit, c, link);
                history.remove(&(id, entry.clone()));
            }
        }
    }
}

/// Notes how long a plan took and how many walks it ran when the plan is done.
struct PlanTimer<'a> {
    rep: &'a Report,
    pi: usize,
    started: std::time::Instant,
    walks_before: u64,
    worlds: usize,
    stacks: usize,
    deviations: usize,
    follow: bool,
}

impl Drop for PlanTimer<'_> {
    fn drop(&mut self) {
        self.rep.note(format!(
            "plan {}: {} worlds x {} stack sets (every permutation) x <= {} deviations, {}: {} walks in {:.0} s",
            self.pi,
            self.worlds,
            self.stacks,
            self.deviations,
            if self.follow { "reading link targets" } else { "links read as files" },
            self.rep.get("walks") - self.walks_before,
            self.started.elapsed().as_secs_f64()
        ));
    }
}

pub fn replay_rootedfeed(case: &Value) -> bool {
    let world = world_from_json(&case["world"]);
    let pat = case["pattern"].as_str().unwrap_or("*");
    let scratch = Scratch::new();
    let place = fswalk::place(&scratch, &world);
    let Ok((run, text)) = execute_rooted(&place, pat, wax::walk::LinkBehavior::ReadFile) else {
        println!("walk fails");
        return true;
    };
    let exp = Glob::new(&text).ok().and_then(|glob| glob_feed_expectation_justified(&world, &place.abs, &glob, true, false));
    println!("Glob(\"<T>/{}\").walk in {}: feeds {:?}; pruned traversal and unjustified cuts {:?}", pat, world.describe(), run.fed, exp);
    exp.map_or(false, |(e, u)| !same_entries(&e, &run.fed) || !u.is_empty())
}

pub fn c13_c16(tier: Tier, which: &'static str) -> i32 {
    let rep = Report::new(which, tier, "exploration");
    let scratch = Scratch::new();
    let plans = plan_histories(tier);
    let outcomes = std::sync::Mutex::new(BTreeSet::<u64>::new());
    let mut cache: BTreeMap<Layer, NotModel> = BTreeMap::new();
    for plan in &plans {
        for set in &plan.stacks {
            for l in set {
                if matches!(l, Layer::Not(..)) && !cache.contains_key(l) {
                    if let Some(m) = NotModel::new(l) {
                        cache.insert(l.clone(), m);
                    }
                }
            }
        }
    }
    let cache = &cache;
    // C13: "discarded as a tree because it matches an exhaustive negation" - for every negation of
    // the menus, on the installed partition programs and for ALL canonical paths: a directory that
    // the tree-discarding program matches has no descendant that the negation does not match
    if which == "C13" {
        let mut layers = negation_layers(tier);
        for p in ["t/{x/**,d}", "a/{b/**,a}", "{a,b}/{a/**,b}", "?/{a/**,*/b}", "a/{a,b/**}", "a/<b/**:0,1>"] {
            if Glob::new(p).is_ok() {
                layers.push(Layer::Not(p.to_string(), NotForm::Text));
                layers.push(Layer::Not(p.to_string(), NotForm::Owned));
            }
        }
        rep.add("negations_checked_for_tree_discard_soundness", layers.len() as u64);
        layers.par_iter().for_each(|l| {
            let mut c = Counters::new();
            let _ = guard(|| partition_check(&rep, &mut c, l, true));
            rep.merge(&c);
        });
    }
    // C13, first clause, on its own (no stack above the walk): every small glob of the file-system
    // alphabet, and globs whose components mix a group that crosses a component boundary with
    // other tokens, walked in every world; the feed must be the traversal pruned by the component
    // programs, and every directory they cut must be one beneath which the glob cannot match
    if which == "C13" {
        let mut globs = crate::props_fs::fs_globs(tier.pick(2, 3));
        for g in [".{b,a/b}/*", "{b,a/b}*/*", "?{a,b/a}/*", "<a/:1,2>b/*", "*{a/,b}a", "{a,b/a}{a,b}/*", "a{/b,b}/*", "{a/b,b}/a", "[!b]{b,/b}/*", "a<b/a:0,1>/*", "{a,.a}/{b,a/b}"] {
            if Glob::new(g).is_ok() {
                globs.push(g.to_string());
            }
        }
        rep.add("feed_only_globs", globs.len() as u64);
        let worlds = fsworld::worlds(tier.pick(3, 4), &NAMES, 3);
        worlds.par_iter().for_each(|world| {
            let mut c = Counters::new();
            let place = fswalk::place(&scratch, world);
            for g in &globs {
                let base = BaseWalk::Glob(g.clone());
                let Ok(run) = execute(&place, &base, &[], &History::new()) else { continue };
                bump(&mut c, "walks", 1);
                let Some((exp, unjustified)) = Glob::new(g).ok().and_then(|glob| glob_feed_expectation_justified(world, &place.abs, &glob, false, false)) else { continue };
                bump(&mut c, "feed_only_checked", 1);
                if !same_entries(&run.fed, &exp) || !unjustified.is_empty() {
                    rep.alarm(Alarm {
                        class: None,
                        key: format!("feedonly {} {}", world.describe(), g),
                        msg: if unjustified.is_empty() {
                            format!("{} in {}: the walk feeds {:?} downstream, but the traversal pruned by the glob's component programs is {:?}", base.describe(), world.describe(), run.fed, exp)
                        }
                        else {
                            format!("{} in {}: the walker's component programs discard {:?} as a tree although the glob can match beneath it (fed downstream: {:?})", base.describe(), world.describe(), unjustified, run.fed)
                        },
                        case: case_json(world, &base, &[], &History::new()),
                    });
                }
            }
            drop(place);
            rep.merge(&c);
        });
    }
    for (pi, plan) in plans.iter().enumerate() {
        let plan_started = std::time::Instant::now();
        let walks_before = rep.get("walks");
        let _plan_guard = PlanTimer { rep: &rep, pi, started: plan_started, walks_before, worlds: plan.worlds.len(), stacks: plan.stacks.len(), deviations: plan.deviations, follow: plan.follow };
        rep.add("worlds", plan.worlds.len() as u64);
        rep.add("stack_sets", plan.stacks.len() as u64);
        plan.worlds.par_iter().for_each(|world| {
            let mut c = Counters::new();
            let place = fswalk::place(&scratch, world);
            bump(&mut c, if place.order_ok { "orders_realised" } else { "orders_not_honoured" }, 1);
            let mut local_outcomes: Vec<u64> = vec![];
            for base in &plan.bases {
                let link = if plan.follow { wax::walk::LinkBehavior::ReadTarget } else { wax::walk::LinkBehavior::ReadFile };
                let Ok(base_run) = execute_with(&place, base, &[], &History::new(), link) else { continue };
                // C13, first clause: a directory whose component a glob cannot match is discarded
                // as a tree by the walker itself - what the walk feeds downstream is the
                // reference traversal pruned by the glob's own component programs
                if which == "C13" {
                    if let BaseWalk::Glob(g) = base {
                        if let Some((exp, unjustified)) = Glob::new(g).ok().and_then(|glob| glob_feed_expectation_justified(world, &place.abs, &glob, false, plan.follow)) {
                            bump(&mut c, "base_feeds_checked", 1);
                            if !unjustified.is_empty() {
                                rep.alarm(Alarm {
                                    class: None,
                                    key: format!("unjustified {} {:?} {}", world.describe(), base, plan.follow),
                                    msg: format!(
                                        "{} in {}: the walker's component programs discard {:?} as a tree although the glob can match beneath it (nothing beneath is fed downstream)",
                                        base.describe(), world.describe(), unjustified
                                    ),
                                    case: with_follow(case_json(world, base, &[], &History::new()), plan.follow),
                                });
                            }
                            if !same_entries(&base_run.fed, &exp) {
                                rep.alarm(Alarm {
                                    class: None,
                                    key: format!("basefeed {} {:?} {}", world.describe(), base, plan.follow),
                                    msg: format!(
                                        "{} in {}{}: the walk feeds {:?} downstream, but the traversal pruned by the glob's component programs is {:?}",
                                        base.describe(),
                                        world.describe(),
                                        if plan.follow { " (reading link targets)" } else { "" },
                                        base_run.fed,
                                        exp
                                    ),
                                    case: with_follow(case_json(world, base, &[], &History::new()), plan.follow),
                                });
                            }
                        }
                    }
                }
                for set in &plan.stacks {
                    let perms = permutations(set);
                    let canonical = &perms[0];
                    let not_models_for = |layers: &[Layer]| -> BTreeMap<usize, &NotModel> {
                        layers.iter().enumerate().filter_map(|(i, l)| cache.get(l).map(|m| (i, m))).collect()
                    };
                    let mut histories: Vec<History> = vec![];
                    {
                        let mut visit = |h: &History, _r: &Run| histories.push(h.clone());
                        explore_histories(&place, base, canonical, plan.deviations, &mut History::new(), None, &mut visit, &mut c, link);
                    }
                    bump(&mut c, "histories", histories.len() as u64);
                    for h in &histories {
                        *c.entry(match h.len() { 0 => "histories_0_deviations", 1 => "histories_1_deviation", 2 => "histories_2_deviations", _ => "histories_3_deviations" }).or_insert(0) += 1;
                        // (permutation, yielded, deviates from the model exactly as the recorded mirror predicts)
                        let mut yields: Vec<(Vec<Layer>, Vec<String>, bool)> = vec![];
                        for perm in &perms {
                            let run = match execute_with(&place, base, perm, h, link) {
                                Ok(r) => r,
                                Err(msg) => {
                                    if !msg.starts_with("SKIP") {
                                        rep.alarm(Alarm {
                                            class: None,
                                            key: format!("fail {} {:?} {:?}", world.describe(), base, perm),
                                            msg: format!("{} over {} in {} fails: {}", perm.iter().map(|l| l.describe()).collect::<Vec<_>>().join("."), base.describe(), world.describe(), msg),
                                            case: with_follow(case_json(world, base, perm, h), plan.follow),
                                        });
                                    }
                                    continue;
                                },
                            };
                            bump(&mut c, "walks", 1);
                            {
                                use std::hash::{Hash, Hasher};
                                let mut hasher = std::collections::hash_map::DefaultHasher::new();
                                (&run.yielded, &run.fed, &run.calls).hash(&mut hasher);
                                local_outcomes.push(hasher.finish());
                            }
                            let nm = not_models_for(perm);
                            let j = judge(world, base, &base_run, perm, h, &nm, &run, plan.follow);
                            let (problems, label) = if which == "C13" { (&j.problems_c13, "C13") } else { (&j.problems_c16, "C16") };
                            if !problems.is_empty() {
                                let class = if j.residue_mirror { Some("residue-relative-to-traversal-root".to_string()) } else { None };
                                rep.alarm(Alarm {
                                    class,
                                    key: format!("{} {} {:?} {:?} {:?}", label, world.describe(), base, perm, h),
                                    msg: format!(
                                        "{} over {} in {} with history [{}]: {}",
                                        perm.iter().map(|l| l.describe()).collect::<Vec<_>>().join("."),
                                        base.describe(),
                                        world.describe(),
                                        history_text(h),
                                        problems.join("; ")
                                    ),
                                    case: with_follow(case_json(world, base, perm, h), plan.follow),
                                });
                            }
                            // the same stack consumed directly (outermost layer driven by `next`)
                            // (thorough tier: histories with at most one deviation - the deeper
                            // histories are what makes that tier long, and the direct route differs from
                            // the logged one in the outermost layer only)
                            if tier == Tier::Thorough && h.len() > 1 {
                                // not consumed directly
                            }
                            else if let Ok(bare) = execute_bare(&place, base, perm, h, link) {
                                bump(&mut c, "walks", 1);
                                bump(&mut c, "stacks_consumed_directly", 1);
                                if let Some(diff) = bare_difference(&run, &bare) {
                                    rep.alarm(Alarm {
                                        class: None,
                                        key: format!("bare {} {} {:?} {:?} {:?}", label, world.describe(), base, perm, h),
                                        msg: format!(
                                            "{} over {} in {} with history [{}]: {}",
                                            perm.iter().map(|l| l.describe()).collect::<Vec<_>>().join("."),
                                            base.describe(),
                                            world.describe(),
                                            history_text(h),
                                            diff
                                        ),
                                        case: with_follow(case_json(world, base, perm, h), plan.follow),
                                    });
                                }
                            }
                            yields.push((perm.clone(), run.yielded.clone(), j.residue_mirror && !(j.problems_c13.is_empty() && j.problems_c16.is_empty())));
                        }
                        // order independence (C16)
                        if which == "C16" {
                            for (perm, y, mirrored) in yields.iter().skip(1) {
                                let mut a = y.clone();
                                let mut b = yields[0].1.clone();
                                a.sort();
                                b.sort();
                                if a != b {
                                    rep.alarm(Alarm {
                                        // the two orders differ because one of them (or both) deviates
                                        // from the model exactly as the recorded mirror predicts
                                        class: if *mirrored || yields[0].2 { Some("residue-relative-to-traversal-root".to_string()) } else { None },
                                        key: format!("perm {} {:?} {:?} {:?}", world.describe(), base, perm, h),
                                        msg: format!(
                                            "order dependence over {} in {} with history [{}]: {} yields {:?} but {} yields {:?}",
                                            base.describe(),
                                            world.describe(),
                                            history_text(h),
                                            yields[0].0.iter().map(|l| l.describe()).collect::<Vec<_>>().join("."),
                                            yields[0].1,
                                            perm.iter().map(|l| l.describe()).collect::<Vec<_>>().join("."),
                                            y
                                        ),
                                        case: with_follow(case_json(world, base, perm, h), plan.follow),
                                    });
                                }
                            }
                        }
                    }
                }
            }
            {
                let mut o = outcomes.lock().unwrap();
                o.extend(local_outcomes);
            }
            drop(place);
            rep.merge(&c);
        });
    }
    // rooted glob walks (the world's absolute path followed by a pattern): the same feed law; the
    // pivot of a rooted glob differs from the number of prefix components
    if which == "C13" {
        let worlds = &plans[0].worlds;
        let patterns = ["*/a", "a/*", "{a,b}/**", "[!a]*/*", "**/a", "*", "a/**"];
        worlds.par_iter().for_each(|world| {
            let mut c = Counters::new();
            let place = fswalk::place(&scratch, world);
            for pat in patterns {
                let link = wax::walk::LinkBehavior::ReadFile;
                let Ok((run, text)) = execute_rooted(&place, pat, link) else { continue };
                bump(&mut c, "walks", 1);
                let Some((exp, unjustified)) = Glob::new(&text).ok().and_then(|glob| glob_feed_expectation_justified(world, &place.abs, &glob, true, false)) else { continue };
                bump(&mut c, "rooted_base_feeds_checked", 1);
                if !unjustified.is_empty() {
                    rep.alarm(Alarm {
                        class: None,
                        key: format!("rooted unjustified {} {}", world.describe(), pat),
                        msg: format!("Glob(\"<T>/{}\").walk in {}: the walker's component programs discard {:?} as a tree although the glob can match beneath it", pat, world.describe(), unjustified),
                        case: json!({"kind": "rootedfeed", "world": world_json(world), "pattern": pat}),
                    });
                }
                if !same_entries(&run.fed, &exp) {
                    rep.alarm(Alarm {
                        class: None,
                        key: format!("rootedfeed {} {}", world.describe(), pat),
                        msg: format!(
                            "Glob(\"<T>/{}\").walk in {}: the walk feeds {:?} downstream, but the traversal pruned by the glob's component programs is {:?}",
                            pat,
                            world.describe(),
                            run.fed,
                            exp
                        ),
                        case: json!({"kind": "rootedfeed", "world": world_json(world), "pattern": pat}),
                    });
                }
            }
            drop(place);
            rep.merge(&c);
        });
    }
    let distinct = outcomes.lock().unwrap().len() as u64;
    let walks = rep.get("walks");
    let sample_plan = &plans[0];
    let samples = vec![json!({
        "world": sample_plan.worlds.last().map(|w| w.describe()),
        "base": sample_plan.bases[0].describe(),
        "stack": sample_plan.stacks.last().map(|s| s.iter().map(|l| l.describe()).collect::<Vec<_>>()),
        "history": "every assignment of File/Tree to at most k (filter, entry) calls, found by re-execution",
    })];
    drop(scratch);
    rep.finish(
        json!({
            "evaluations": walks,
            "distinct_nontrivial": distinct,
            "rule": format!("every stack is executed twice, beneath a terminal logging filter and consumed directly (the outermost layer's own next() drives the walk), and both runs must agree on every item and every layer's call log; C13 additionally walks every small glob alone and requires every directory cut by its component programs to be one beneath which the complete program accepts no canonical path (exhaustive automaton search); plans {:?}: every world (all child orders) x base walks x every set of <= n layers from the menu in EVERY permutation x every verdict history with <= k deviations from 'keep' (stateless re-execution, branching on every logged call); distinct_nontrivial = distinct (yielded, fed, call log) outcomes", plans.iter().map(|p| (p.worlds.len(), p.stacks.len(), p.deviations)).collect::<Vec<_>>()),
            "samples": samples,
            "exhaustive": true,
        }),
        vec![
            "walkdir and tmpfs behave as documented; readdir order is owned through creation order".into(),
            "what the base walk alone feeds and yields is taken as given (C02 decides it)".into(),
        ],
    )
}

// ---------------------------------------------------------------------------------------------
// C03
// ---------------------------------------------------------------------------------------------

pub fn negation_layers(tier: Tier) -> Vec<Layer> {
    let pats = fs_globs(tier.pick(2, 3));
    let mut out = vec![];
    for p in &pats {
        out.push(Layer::Not(p.clone(), NotForm::Text));
    }
    let small = fs_globs(tier.pick(1, 2));
    for p in &small {
        out.push(Layer::Not(p.clone(), NotForm::Compiled));
        out.push(Layer::Not(p.clone(), NotForm::Owned));
    }
    // combinators: pairs over an interesting subset (exhaustive x nonexhaustive x empty)
    // patterns that are exhaustive only for some branches, nested so that they are not split
    // into top-level alternatives
    for p in ["a/{b/**,a}", "a/{a,b/**}", "?/{a/**,b}", "*/{a,b/**}", "<a/:1,2>{b/**,a}", "{a,b}/{a/**,b}", "a/<b/**:0,1>", "a/<a/:0,1>b", "**/a/{b,a/**}"] {
        if Glob::new(p).is_ok() {
            out.push(Layer::Not(p.to_string(), NotForm::Text));
            out.push(Layer::Not(p.to_string(), NotForm::Compiled));
            out.push(Layer::Not(p.to_string(), NotForm::AnyText("b".to_string())));
        }
    }
    let picks = ["", "a", "*", "a/**", "**/a", "**", "{a/**,b}", "a/*", "**/{a}", "<a/>*", "?/**", "[!a]*", "a/{b/**,a}"];
    for (i, p) in picks.iter().enumerate() {
        for (j, q) in picks.iter().enumerate() {
            if Glob::new(p).is_ok() && Glob::new(q).is_ok() {
                out.push(Layer::Not(p.to_string(), NotForm::AnyText(q.to_string())));
                // nested combinators: all pairs in the thorough tier, a band in the quick tier
                if tier == Tier::Thorough || (i + 1 == j || i == j + 2) {
                    out.push(Layer::Not(p.to_string(), NotForm::AnyNested(q.to_string())));
                }
            }
        }
    }
    out
}

pub fn c03(tier: Tier) -> i32 {
    let rep = Report::new("C03", tier, "model_checking");
    // (ii) partition soundness and completeness on the installed programs, all canonical paths
    let layers = negation_layers(tier);
    rep.add("negations", layers.len() as u64);
    layers.par_iter().for_each(|l| {
        let mut c = Counters::new();
        let _ = guard(|| c03_partition_check(&rep, &mut c, l));
        rep.merge(&c);
    });
    // (ii') the same product for every expression of a program space (full bounds, flags, classes,
    // nesting), installed as text; every fifth one also as a compiled and as an owned glob
    {
        let opts = crate::space::SpaceOpts {
            // (measured: with shapes of size 4 and the position family at depth 2 the thorough tier did
            // not finish in 90 minutes; the thorough tier substitutes on more shapes instead)
            shape: 3,
            subst_single: tier.pick(2, 3),
            subst_pairs: 0,
            reduced: 0,
            corpus: true,
            letter_canonical: true,
            position: 1,
            position_full: tier.pick(0, 1),
            adjacent: true,
        };
        let k = std::sync::atomic::AtomicU64::new(0);
        let n = crate::space::for_each_expr(&opts, &|e| {
            if Glob::new(&e.text).is_err() {
                return;
            }
            let mut c = Counters::new();
            let i = k.fetch_add(1, std::sync::atomic::Ordering::Relaxed);
            let mut forms = vec![NotForm::Text];
            if i % 5 == 0 {
                forms.push(NotForm::Compiled);
                forms.push(NotForm::Owned);
            }
            for form in forms {
                let l = Layer::Not(e.text.clone(), form);
                bump(&mut c, "space_negations", 1);
                let _ = guard(|| c03_partition_check(&rep, &mut c, &l));
            }
            rep.merge(&c);
        });
        rep.add("space_programs_enumerated", n);
    }
    // (i) real walks
    let scratch = Scratch::new();
    let mut worlds = fsworld::worlds(tier.pick(3, 4), &NAMES, 3);
    // worlds with symbolic links (read as files, the default): a link to a directory that a
    // negation discards as a tree is a leaf, and nothing but the link itself may disappear
    let plain_worlds = worlds.len();
    let link_cap = tier.pick(2, 3);
    worlds.extend(crate::props_links::link_worlds(Tier::Quick).into_iter().filter(|w| w.entries() <= link_cap && w.describe().contains("->")));
    rep.add("link_worlds", (worlds.len() - plain_worlds) as u64);
    let bases = vec![
        BaseWalk::Path,
        BaseWalk::Glob("**".into()),
        BaseWalk::Glob("*".into()),
        BaseWalk::Glob("*/*".into()),
        BaseWalk::Glob("a/**".into()),
        BaseWalk::Glob("**/a".into()),
        // walks whose component programs really prune directories
        BaseWalk::Glob("{a,b}/**".into()),
        BaseWalk::Glob("[!a]*/*".into()),
    ];
    rep.add("worlds", worlds.len() as u64);
    let outcomes = std::sync::Mutex::new(BTreeSet::<u64>::new());
    let models: Vec<Option<NotModel>> = layers.par_iter().map(|l| guard(|| NotModel::new(l)).ok().flatten()).collect();
    let models = &models;
    let touches_link: Vec<bool> = models
        .iter()
        .map(|m| m.as_ref().map_or(false, |m| ["l", "a/l", "b/l", "a/a/l", "a/b/l", "b/a/l", "b/b/l"].iter().any(|p| m.installed(p).is_some())))
        .collect();
    let touches_link = &touches_link;
    rep.add("negations_touching_links", touches_link.iter().filter(|t| **t).count() as u64);
    worlds.par_iter().for_each(|world| {
        let mut c = Counters::new();
        let place = fswalk::place(&scratch, world);
        bump(&mut c, if place.order_ok { "orders_realised" } else { "orders_not_honoured" }, 1);
        let mut local: Vec<u64> = vec![];
        for base in &bases {
            let Ok(base_run) = execute(&place, base, &[], &History::new()) else { continue };
            let has_link = world.describe().contains("->");
            if has_link && !matches!(base, BaseWalk::Path) && !matches!(base, BaseWalk::Glob(g) if g == "**" || g == "*/*" || g == "{a,b}/**") {
                continue;
            }
            for (li, l) in layers.iter().enumerate() {
                // in link worlds only the negations that give a verdict on a link are walked
                if has_link && !touches_link[li] {
                    continue;
                }
                let stack = [l.clone()];
                let run = match execute(&place, base, &stack, &History::new()) {
                    Ok(r) => r,
                    Err(msg) => {
                        rep.alarm(Alarm {
                            class: None,
                            key: format!("fail {} {:?} {:?}", world.describe(), base, l),
                            msg: format!("{} over {} in {} fails: {}", l.describe(), base.describe(), world.describe(), msg),
                            case: case_json(world, base, &stack, &History::new()),
                        });
                        continue;
                    },
                };
                bump(&mut c, "walks", 1);
                {
                    use std::hash::{Hash, Hasher};
                    let mut hasher = std::collections::hash_map::DefaultHasher::new();
                    (&run.yielded,).hash(&mut hasher);
                    local.push(hasher.finish());
                }
                let mut nm: BTreeMap<usize, &NotModel> = BTreeMap::new();
                if let Some(m) = &models[li] {
                    nm.insert(0usize, m);
                }
                // the negation consumed directly (its own `next` drives the walk)
                let bare_here = tier == Tier::Thorough || matches!(base, BaseWalk::Path) || matches!(base, BaseWalk::Glob(g) if g == "**" || g == "{a,b}/**" || g == "a/**");
                if !bare_here {
                    // (quick tier: four of the eight underlying walks)
                }
                else if let Ok(bare) = execute_bare(&place, base, &stack, &History::new(), wax::walk::LinkBehavior::ReadFile) {
                    bump(&mut c, "walks", 1);
                    bump(&mut c, "stacks_consumed_directly", 1);
                    if let Some(diff) = bare_difference(&run, &bare) {
                        rep.alarm(Alarm {
                            class: None,
                            key: format!("bare {} {:?} {:?}", world.describe(), base, l),
                            msg: format!("{} over {} in {}: {}", l.describe(), base.describe(), world.describe(), diff),
                            case: case_json(world, base, &stack, &History::new()),
                        });
                    }
                }
                let j = judge(world, base, &base_run, &stack, &History::new(), &nm, &run, false);
                if !j.problems_c03.is_empty() {
                    rep.alarm(Alarm {
                        class: j.class.clone(),
                        key: format!("{} {:?} {:?}", world.describe(), base, l),
                        msg: format!("{} over {} in {}: {}", l.describe(), base.describe(), world.describe(), j.problems_c03.join("; ")),
                        case: case_json(world, base, &stack, &History::new()),
                    });
                }
            }
        }
        outcomes.lock().unwrap().extend(local);
        drop(place);
        rep.merge(&c);
    });
    drop(scratch);
    let states = rep.get("states");
    let transitions = rep.get("transitions");
    let traces = rep.get("traces_validated_against_impl");
    let walks = rep.get("walks");
    let distinct = outcomes.lock().unwrap().len() as u64;
    rep.finish(
        json!({
            "states": states, "transitions": transitions, "traces_validated_against_impl": traces,
            "evaluations": walks, "distinct_nontrivial": distinct,
            "exhaustive": true,
            "rule": "(ii') the same product for every built expression of a program space of its own (shapes, substitutions, position / flag / cased / adjacent families, corpus) installed as text (every fifth also compiled and owned), each through the very route a real walk takes; negations consumed directly as well as beneath a logging filter; (ii) for every negation (expression, compiled, owned, any of two, nested any): product of the installed exhaustive / nonexhaustive partition programs with the whole pattern and the canonical-ancestor monitor, all canonical paths: completeness and tree-discard soundness; (i) every world x 6 underlying walks x every negation walked for real and compared with per-entry filtering",
        }),
        vec![
            "regex front end versions equal to /repo's; alphabet partition sound for all of Unicode".into(),
            "walkdir / tmpfs behave as documented".into(),
        ],
    )
}

fn c03_partition_check(rep: &Report, c: &mut Counters, l: &Layer) {
    partition_check(rep, c, l, false)
}

/// `only_sound`: C13's use - only the tree-discard soundness alarms (a directory discarded as a
/// tree "because it matches an exhaustive negation" must be one beneath which every path matches).
fn partition_check(rep: &Report, c: &mut Counters, l: &Layer, only_sound: bool) {
    use crate::props_query::AncMon;
    let Some(nm) = NotModel::new(l) else {
        bump(c, "negations_rejected", 1);
        return;
    };
    let pats = l.patterns();
    let Ok(any) = wax::any(pats.iter().copied()) else { return };
    let Ok(whole) = Dfa::new_search(any.verif_program_text()) else { return };
    let never = Dfa::new("^[a&&b]$").unwrap();
    let e = nm.exhaustive.as_ref().unwrap_or(&never);
    let n = nm.nonexhaustive.as_ref().unwrap_or(&never);
    let dfas = [e, n, &whole];
    let texts: Vec<&str> = dfas.iter().map(|d| d.pattern.as_str()).collect();
    let Ok(alphabet) = automata::alphabet(&texts, &[]) else { return };
    let mon = AncMon { watch: 1, sat: 3 };
    let ex = crate::model::explore_counted(c, &dfas, &mon, &alphabet);
    bump(c, "partitions_checked", 1);
    if !only_sound {
        rep.sample(json!({"negation": l.describe(), "exhaustive_program": e.pattern, "nonexhaustive_program": n.pattern, "product_states": ex.states.len()}));
    }
    let strings = crate::model::access_strings(&ex);
    let asts: Vec<refmodel::syntax::Seq> = pats.iter().filter_map(|p| refmodel::syntax::parse(p).ok()).collect();
    let mut seen: Vec<String> = vec![];
    // Recorded finding nested-tree-position (D4), as it shows through `not`: the pattern is installed
    // inside one more alternation, so a tree wildcard nested in a branch takes its form from another
    // outermost position than in the glob built from the same text. An alarm is attributed to it only
    // if the installed programs equal the encoder mirror of `{pattern}` on the WHOLE product.
    let mut d4: Option<bool> = None;
    let mut d4_explains = |c: &mut Counters| -> bool {
        *d4.get_or_insert_with(|| {
            if asts.len() != 1 || pats.len() != 1 || !matches!(l, Layer::Not(_, NotForm::Text | NotForm::Compiled | NotForm::Owned)) {
                return false;
            }
            use refmodel::syntax::{Kind, Node};
            let wrapped = vec![Node::new(Kind::Alt(vec![asts[0].clone()]))];
            let dev = refmodel::lang::Deviations { d1: true, d2: false, d3: false, d4: true };
            let refmodel::lang::Spec::Specified(r) = refmodel::lang::reference(&wrapped, &dev) else { return false };
            let union = format!("(?:{})|(?:{})", e.pattern, n.pattern);
            let Ok(installed) = Dfa::new_search(&union) else { return false };
            let mut scratch = Counters::new();
            let same = matches!(crate::props_lang::first_disagreement(&mut scratch, &installed, &r, &[], None), Ok(None));
            bump(c, "d4_mirror_products", 1);
            same
        })
    };
    for (i, (t, (cs, anc))) in ex.states.iter().enumerate() {
        if !cs.is_canonical_end() {
            continue;
        }
        let ae = automata::acc(&dfas, t, 0);
        let an = automata::acc(&dfas, t, 1);
        let aw = automata::acc(&dfas, t, 2);
        // binding of the whole pattern
        bump(c, "traces_validated_against_impl", 1);
        if any.is_match(strings[i].as_str()) != aw {
            bump(c, "binding_mismatches", 1);
        }
        if !only_sound && (ae || an) != aw && !seen.contains(&"complete".to_string()) {
            seen.push("complete".into());
            rep.alarm(Alarm {
                class: if d4_explains(c) { Some("nested-tree-position".into()) } else { None },
                key: format!("complete {:?}", l),
                msg: format!(
                    "{}: the installed partition programs {} {:?} although the pattern {} it (exhaustive: {}, nonexhaustive: {})",
                    l.describe(), if ae || an { "match" } else { "do not match" }, strings[i], if aw { "matches" } else { "does not match" }, ae, an
                ),
                case: json!({"kind": "partition-programs", "layer": l.to_json(), "path": strings[i], "check": "complete"}),
            });
        }
        if *anc && !(ae || an) {
            // some proper ancestor matched the exhaustive partition: the tree beneath it would
            // be discarded, but this descendant does not match the negation
            let q = &strings[i];
            let anc_path = {
                let mut cands: Vec<String> = vec![String::new()];
                for (k, b) in q.bytes().enumerate() {
                    if b == b'/' && k > 0 {
                        cands.push(q[..k].to_string());
                    }
                }
                if q.starts_with('/') {
                    cands.push("/".into());
                }
                cands.into_iter().filter(|p| p != q && e.accepts(p)).max_by_key(|p| p.len()).unwrap_or_default()
            };
            let class = if crate::props_query::some_alternative_claims_always(&asts, &anc_path) {
                crate::props_query::c09_class(&asts, &anc_path)
            }
            else {
                None
            };
            // the glob built from the same text does not match the directory: the pattern was
            // installed with another meaning
            let class = if class.is_none() && Glob::new(pats[0]).map_or(false, |g| !g.is_match(anc_path.as_str())) && d4_explains(c) { Some("nested-tree-position".to_string()) } else { class };
            let tag = format!("sound {:?}", class);
            if seen.contains(&tag) {
                continue;
            }
            seen.push(tag);
            rep.alarm(Alarm {
                class,
                key: format!("sound {:?} {:?}", l, anc_path.is_empty() || anc_path == "/"),
                msg: format!(
                    "{}: directory {:?} matches the exhaustive (tree-discarding) partition but its descendant {:?} does not match the negation",
                    l.describe(), anc_path, q
                ),
                case: json!({"kind": "partition-programs", "layer": l.to_json(), "path": q, "ancestor": anc_path, "check": "sound"}),
            });
        }
    }
}

pub fn replay_stack(case: &Value, which: &str) -> bool {
    let world = world_from_json(&case["world"]);
    let base = match case["base"].as_str() {
        Some(g) => BaseWalk::Glob(g.to_string()),
        None => BaseWalk::Path,
    };
    let layers: Vec<Layer> = case["layers"].as_array().map(|a| a.iter().map(Layer::from_json).collect()).unwrap_or_default();
    let mut history = History::new();
    for h in case["history"].as_array().cloned().unwrap_or_default() {
        history.insert(
            (h["filter"].as_u64().unwrap_or(0) as usize, h["entry"].as_str().unwrap_or("").to_string()),
            if h["verdict"].as_str() == Some("Tree") { Verdict::Tree } else { Verdict::File },
        );
    }
    let scratch = Scratch::new();
    let place = fswalk::place(&scratch, &world);
    println!("world {} (readdir order honoured: {})", world.describe(), place.order_ok);
    println!("{} . {}  history [{}]", base.describe(), layers.iter().map(|l| l.describe()).collect::<Vec<_>>().join(" . "), history_text(&history));
    let follow = case["follow"].as_bool().unwrap_or(false);
    let link = if follow { wax::walk::LinkBehavior::ReadTarget } else { wax::walk::LinkBehavior::ReadFile };
    let base_run = match execute_with(&place, &base, &[], &History::new(), link) {
        Ok(r) => r,
        Err(e) => {
            println!("base walk fails: {}", e);
            return true;
        },
    };
    let run = match execute_with(&place, &base, &layers, &history, link) {
        Ok(r) => r,
        Err(e) => {
            println!("walk fails: {}", e);
            return true;
        },
    };
    let owned: BTreeMap<usize, NotModel> = layers.iter().enumerate().filter_map(|(i, l)| if matches!(l, Layer::Not(..)) { NotModel::new(l).map(|m| (i, m)) } else { None }).collect();
    let nm: BTreeMap<usize, &NotModel> = owned.iter().map(|(k, v)| (*k, v)).collect();
    let j = judge(&world, &base, &base_run, &layers, &history, &nm, &run, follow);
    println!("  underlying walk feeds {:?} and yields {:?}", base_run.fed, base_run.yielded);
    println!("  observed: fed {:?}, yielded {:?}, calls {:?}", run.fed, run.yielded, run.calls);
    let problems = match which {
        "C13" => j.problems_c13,
        "C16" => j.problems_c16,
        _ => j.problems_c03,
    };
    for p in &problems {
        println!("  {}", p);
    }
    let mut bad = !problems.is_empty();
    if let Ok(bare) = execute_bare(&place, &base, &layers, &history, link) {
        if let Some(diff) = bare_difference(&run, &bare) {
            println!("  {}", diff);
            bad = true;
        }
    }
    if which == "C13" && layers.is_empty() {
        // first clause: the feed of the glob walk itself
        if let BaseWalk::Glob(g) = &base {
            if let Some((exp, unjustified)) = Glob::new(g).ok().and_then(|glob| glob_feed_expectation_justified(&world, &place.abs, &glob, false, follow)) {
                println!("  traversal pruned by the glob's component programs {:?}: {:?}", Glob::new(g).map(|g| g.verif_walk_component_texts()).unwrap_or_default(), exp);
                println!("  directories cut by the component programs although the glob can match beneath them: {:?}", unjustified);
                if !same_entries(&run.fed, &exp) || !unjustified.is_empty() {
                    bad = true;
                }
            }
        }
    }
    if which == "C16" && layers.len() > 1 {
        // order independence
        let mut reference: Option<Vec<String>> = None;
        for perm in permutations(&layers) {
            if let Ok(r) = execute_with(&place, &base, &perm, &history, link) {
                let mut y = r.yielded.clone();
                y.sort();
                println!("  {} yields {:?}", perm.iter().map(|l| l.describe()).collect::<Vec<_>>().join("."), y);
                match &reference {
                    None => reference = Some(y),
                    Some(r0) => {
                        if *r0 != y {
                            bad = true;
                        }
                    },
                }
            }
        }
    }
    bad
}

pub fn replay_partition_programs(case: &Value) -> bool {
    let l = Layer::from_json(&case["layer"]);
    let path = case["path"].as_str().unwrap_or("");
    let Some(nm) = NotModel::new(&l) else { return false };
    let pats = l.patterns();
    let any = wax::any(pats.iter().copied()).unwrap();
    let not = Path::new("/nonexistent-base").walk().not(wax::any(pats.iter().copied()).unwrap()).unwrap();
    println!("{}: installed partition programs {:?}", l.describe(), not.verif_partition_texts());
    let v = nm.installed(path);
    println!("  {:?}: pattern matches = {}, installed verdict = {:?}", path, any.is_match(path), v);
    match case["check"].as_str() {
        Some("complete") => any.is_match(path) != v.is_some(),
        _ => {
            let anc = case["ancestor"].as_str().unwrap_or("");
            println!("  ancestor {:?}: installed verdict = {:?}", anc, nm.installed(anc));
            nm.installed(anc) == Some(Verdict::Tree) && !any.is_match(path)
        },
    }
}

#[allow(dead_code)]
fn unused(_: PathBuf) {}
