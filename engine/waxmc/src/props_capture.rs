//! C04 (captures are consistent) and C19 (re-expressing / re-owning does not change behaviour):
//! bounded-path exploration through the public `matched` API. The implementation's automaton is
//! used only to enumerate every accepted path up to the length bound (dead states pruned).

use refmodel::automata::{self, Dfa};
use refmodel::lang::{self, Deviations};
use refmodel::syntax::{self, Kind, Node, Seq};
use serde_json::json;
use std::str::FromStr;
use wax::{CandidatePath, Glob, Program};

use crate::common::{guard, Alarm, Report, Tier};
use crate::model::{self, bump};
use crate::props_query::for_each_glob;
use crate::space::SpaceOpts;

/// Every string of length <= l over the alphabet that the DFA accepts or that leads to a live
/// state; calls `f(path, accepted)`. Stops after `cap` accepted paths.
fn live_paths(dfa: &Dfa, alphabet: &[char], l: usize, cap: usize, f: &mut dyn FnMut(&str, bool)) -> bool {
    fn go(
        dfa: &Dfa,
        alphabet: &[char],
        state: regex_automata_state::S,
        cur: &mut String,
        left: usize,
        accepted: &mut usize,
        cap: usize,
        f: &mut dyn FnMut(&str, bool),
    ) -> bool {
        let acc = dfa.accepting(state);
        f(cur, acc);
        if acc {
            *accepted += 1;
            if *accepted >= cap {
                return false;
            }
        }
        if left == 0 {
            return true;
        }
        for &c in alphabet {
            let next = dfa.step(state, c);
            if dfa.is_dead(next) {
                continue;
            }
            cur.push(c);
            let ok = go(dfa, alphabet, next, cur, left - 1, accepted, cap, f);
            cur.pop();
            if !ok {
                return false;
            }
        }
        true
    }
    let mut accepted = 0;
    let mut cur = String::new();
    go(dfa, alphabet, dfa.start(), &mut cur, l, &mut accepted, cap, f)
}

mod regex_automata_state {
    pub type S = regex_automata::util::primitives::StateID;
}

/// Thin the alphabet to at most `max` symbols, most generic first: keep `/`, then letters that
/// the expression names, then one "other" character, then the rest.
fn thin(alphabet: &[char], named: &[char], max: usize) -> Vec<char> {
    let mut out: Vec<char> = vec![];
    let push = |c: char, out: &mut Vec<char>| {
        if alphabet.contains(&c) && !out.contains(&c) && out.len() < max {
            out.push(c);
        }
    };
    push('/', &mut out);
    for c in named {
        push(*c, &mut out);
    }
    for c in alphabet {
        if !named.contains(c) && *c != '\n' && *c != '.' {
            push(*c, &mut out);
            break;
        }
    }
    push('.', &mut out);
    push('\n', &mut out);
    for c in alphabet {
        push(*c, &mut out);
    }
    out
}

fn named_chars(seq: &[Node], out: &mut Vec<char>) {
    for n in seq {
        match &n.kind {
            Kind::Lit(t) => {
                for c in t.chars() {
                    if !out.contains(&c) {
                        out.push(c);
                    }
                    for u in c.to_uppercase().chain(c.to_lowercase()) {
                        if !out.contains(&u) {
                            out.push(u);
                        }
                    }
                }
            },
            Kind::Class { items, .. } => {
                for it in items {
                    let c = match it {
                        syntax::ClassItem::Ch(c) => *c,
                        syntax::ClassItem::Range(a, _) => *a,
                    };
                    if !out.contains(&c) {
                        out.push(c);
                    }
                }
            },
            Kind::Alt(bs) => {
                for b in bs {
                    named_chars(b, out);
                }
            },
            Kind::Rep { body, .. } => named_chars(body, out),
            _ => {},
        }
    }
}

struct CaptureModel {
    /// top-level capturing tokens: node index and kind
    caps: Vec<usize>,
    /// per capturing token: DFA of its own reference language (None: not checked)
    own: Vec<Option<Dfa>>,
    /// gap DFAs: gaps[i] = between capture i-1 and capture i (0 = before the first, n = after the
    /// last), assuming every capture in between participates
    token_regex: Vec<(usize, String)>,
}

fn build_capture_model(ast: &Seq) -> CaptureModel {
    build_capture_model_with(ast, &Deviations::default())
}

fn build_capture_model_with(ast: &Seq, dev: &Deviations) -> CaptureModel {
    let caps: Vec<usize> = ast.iter().enumerate().filter(|(_, n)| n.is_capturing()).map(|(i, _)| i).collect();
    let token_regex = lang::token_regexes(ast, dev).unwrap_or_default();
    let mut own = vec![];
    for &i in &caps {
        let n = &ast[i];
        let d = match &n.kind {
            Kind::Tree { .. } => None,
            _ => token_regex.iter().find(|(j, _)| *j == i).and_then(|(_, r)| Dfa::new(&format!("(?s)^(?:{})$", r)).ok()),
        };
        own.push(d);
    }
    CaptureModel { caps, own, token_regex }
}

/// regex of the gap between capturing tokens at node indices `a` (exclusive; None = start) and
/// `b` (exclusive; None = end): the literals / separators in between, non-participating
/// captures contribute (`/`)? if they are trees; one separator may be absorbed next to a tree.
fn gap_regex(ast: &Seq, cm: &CaptureModel, a: Option<usize>, b: Option<usize>, participating: &[bool]) -> Option<String> {
    let lo = a.map_or(0, |x| x + 1);
    let hi = b.unwrap_or(ast.len());
    let mut r = String::from("(?s)^");
    let tree_at = |i: Option<usize>| i.map_or(false, |i| ast[i].is_tree());
    if tree_at(a) {
        r.push_str("/?");
    }
    for i in lo..hi {
        let n = &ast[i];
        if n.is_flag() {
            continue;
        }
        if n.is_capturing() {
            // a capturing token strictly between two participating captures does not participate
            let k = cm.caps.iter().position(|x| *x == i)?;
            if participating[k] {
                return None;
            }
            if n.is_tree() {
                r.push_str("/?");
            }
            else {
                return None; // only trees may be absent
            }
            continue;
        }
        let (_, t) = cm.token_regex.iter().find(|(j, _)| *j == i)?;
        r.push_str(&format!("(?:{})", t));
    }
    if tree_at(b) {
        r.push_str("/?");
    }
    r.push('$');
    Some(r)
}

fn offset_in(path: &str, sub: &str) -> Option<(usize, usize)> {
    let p0 = path.as_ptr() as usize;
    let s0 = sub.as_ptr() as usize;
    if s0 < p0 || s0 + sub.len() > p0 + path.len() {
        return None;
    }
    Some((s0 - p0, s0 - p0 + sub.len()))
}

fn component_boundary(path: &str, at: usize) -> bool {
    at == 0 || at == path.len() || path.as_bytes()[at - 1] == b'/' || path.as_bytes()[at] == b'/'
}

/// The capture laws for one matching path; returns the list of violated laws.
fn capture_laws(g: &Glob<'_>, ast: &Seq, cm: &CaptureModel, spec_ok: bool, path: &str, gap_cache: &mut std::collections::HashMap<String, Option<Dfa>>) -> Vec<String> {
    let mut bad = vec![];
    let cand = CandidatePath::from(path);
    let Some(m) = g.matched(&cand) else {
        bad.push("is_match is true but matched() is None".to_string());
        return bad;
    };
    let n = cm.caps.len();
    if m.complete() != path || m.get(0) != Some(path) {
        bad.push(format!("capture 0 is {:?}, not the whole path", m.get(0)));
    }
    for extra in [n + 1, n + 2] {
        if m.get(extra).is_some() {
            bad.push(format!("capture {} exists although the glob has {} capturing sub-expressions", extra, n));
        }
    }
    // owned = borrowed
    let owned = m.to_owned();
    for i in 0..=n + 1 {
        if owned.get(i) != m.get(i) {
            bad.push(format!("owned capture {} is {:?}, borrowed is {:?}", i, owned.get(i), m.get(i)));
        }
    }
    let mut ranges: Vec<Option<(usize, usize)>> = vec![];
    for k in 0..n {
        let node = &ast[cm.caps[k]];
        match m.get(k + 1) {
            None => {
                if !node.is_tree() {
                    bad.push(format!("capture {} does not participate although its sub-expression is not a tree wildcard", k + 1));
                }
                ranges.push(None);
            },
            Some(t) => match offset_in(cand.as_ref(), t) {
                None => {
                    bad.push(format!("capture {} = {:?} is not a sub-slice of the path", k + 1, t));
                    ranges.push(None);
                },
                Some((s, e)) => {
                    ranges.push(Some((s, e)));
                    match &node.kind {
                        Kind::One | Kind::Class { .. } => {
                            if t.chars().count() != 1 || t.contains('/') {
                                bad.push(format!("capture {} = {:?} of a one-character pattern is not one non-separator character", k + 1, t));
                            }
                        },
                        Kind::Zom(_) => {
                            if t.contains('/') {
                                bad.push(format!("capture {} = {:?} of a zero-or-more wildcard contains a separator", k + 1, t));
                            }
                        },
                        Kind::Tree { .. } => {
                            if !component_boundary(path, s) || !component_boundary(path, e) {
                                bad.push(format!("capture {} = {:?} of a tree wildcard is not a run of complete components of {:?}", k + 1, t, path));
                            }
                        },
                        _ => {},
                    }
                    if spec_ok {
                        if let Some(d) = &cm.own[k] {
                            if !d.accepts(t) {
                                bad.push(format!("capture {} = {:?} is not matched by its own sub-expression `{}`", k + 1, t, &syntax::to_text(std::slice::from_ref(node))));
                            }
                        }
                    }
                },
            },
        }
    }
    // order, disjointness, gaps
    let participating: Vec<bool> = ranges.iter().map(|r| r.is_some()).collect();
    let mut prev_end = 0usize;
    let mut prev_cap: Option<usize> = None;
    let mut check_gap = |a: Option<usize>, b: Option<usize>, text: &str, bad: &mut Vec<String>| {
        if !spec_ok {
            return;
        }
        let Some(r) = gap_regex(ast, cm, a.map(|k| cm.caps[k]), b.map(|k| cm.caps[k]), &participating) else { return };
        let d = gap_cache.entry(r.clone()).or_insert_with(|| Dfa::new(&r).ok());
        if let Some(d) = d {
            if !d.accepts(text) {
                bad.push(format!(
                    "the text {:?} between {} and {} is not what the literals and separators between them match ({})",
                    text,
                    a.map_or("the start".to_string(), |k| format!("capture {}", k + 1)),
                    b.map_or("the end".to_string(), |k| format!("capture {}", k + 1)),
                    r
                ));
            }
        }
    };
    for k in 0..n {
        if let Some((s, e)) = ranges[k] {
            if s < prev_end {
                bad.push(format!("capture {} starts at {} before the previous capture ends at {}", k + 1, s, prev_end));
            }
            else {
                check_gap(prev_cap, Some(k), &path[prev_end..s], &mut bad);
            }
            prev_end = e.max(prev_end);
            prev_cap = Some(k);
        }
    }
    if prev_end <= path.len() {
        check_gap(prev_cap, None, &path[prev_end..], &mut bad);
    }
    bad
}

/// The long-path family: a closed family of (expression, path, expected captures) whose paths are
/// as long as the powers of two at which offsets stored in narrower integers wrap (2^8, 2^16,
/// 2^17), one byte below and above, with a capture beginning and a capture ending beyond the
/// boundary, and a multi-byte character straddling it.
fn long_path_cases(tier: Tier) -> Vec<(String, String, Vec<Option<String>>)> {
    let mut lens: Vec<usize> = vec![255, 256, 257, 65_535, 65_536, 65_537];
    if tier == Tier::Thorough {
        lens.extend([65_534, 65_538, 131_071, 131_072, 131_073, 1 << 20]);
    }
    let mut out = vec![];
    for n in lens {
        let a = |k: usize| "a".repeat(k);
        // one capture ending beyond the boundary
        out.push(("*".to_string(), a(n), vec![Some(a(n))]));
        // a capture beginning beyond the boundary
        out.push(("*b*".to_string(), format!("{}b{}", a(n - 1), "cc"), vec![Some(a(n - 1)), Some("cc".to_string())]));
        out.push(("*b$".to_string(), format!("{}b{}", a(n), "c"), vec![Some(a(n)), Some("c".to_string())]));
        // a tree capture and a component capture around the boundary
        out.push(("**/*".to_string(), format!("{}/bb", a(n - 2)), vec![Some(format!("{}/", a(n - 2))), Some("bb".to_string())]));
        out.push(("a*/**/c?".to_string(), format!("a{}/m/n/cd", "x".repeat(n - 4)), vec![Some("x".repeat(n - 4)), Some("m/n/".to_string()), Some("d".to_string())]));
        // a repetition capture
        out.push(("<a:1,>b[c]".to_string(), format!("{}bc", a(n)), vec![Some(a(n)), Some("c".to_string())]));
        // a multi-byte character straddling the boundary
        out.push(("*é*".to_string(), format!("{}éyy", "x".repeat(n - 1)), vec![Some("x".repeat(n - 1)), Some("yy".to_string())]));
        out.push(("?*".to_string(), format!("金{}", a(n - 2)), vec![Some("金".to_string()), Some(a(n - 2))]));
    }
    out
}

/// Checks the long-path family; `what` names the calling property's clause in the message.
fn check_long_paths(rep: &Report, tier: Tier) -> u64 {
    use rayon::prelude::*;
    let cases = long_path_cases(tier);
    cases.par_iter().for_each(|(e, path, expected)| {
        let Some(g) = crate::model::build_ok(e) else { return };
        let problems = guard(|| long_path_problems(&g, path, expected)).unwrap_or_else(|p| vec![format!("panic: {}", p)]);
        if !problems.is_empty() {
            rep.alarm(Alarm {
                class: None,
                key: format!("long {} {}", e, path.len()),
                msg: format!("`{}` on a path of {} bytes: {}", e, path.len(), problems.join("; ")),
                case: json!({"kind": "long-captures", "expression": e, "path_bytes": path.len()}),
            });
        }
    });
    cases.len() as u64
}

fn long_path_problems(g: &Glob<'_>, path: &str, expected: &[Option<String>]) -> Vec<String> {
    let short = |s: Option<&str>| s.map(|s| if s.len() > 24 { format!("{}..({} bytes)", &s[..s.char_indices().nth(12).map_or(s.len(), |c| c.0)], s.len()) } else { s.to_string() });
    let mut bad = vec![];
    let cand = CandidatePath::from(path);
    if !g.is_match(path) {
        bad.push("is_match is false".to_string());
    }
    let Some(m) = g.matched(&cand) else {
        bad.push("matched() is None".to_string());
        return bad;
    };
    if m.complete() != path || m.get(0) != Some(path) {
        bad.push("capture 0 is not the whole path".to_string());
    }
    let n = expected.len();
    let owned = m.to_owned();
    let mut last_end = 0usize;
    for i in 0..=n + 1 {
        let b = m.get(i);
        if owned.get(i) != b {
            bad.push(format!("to_owned capture {} is {:?}, borrowed is {:?}", i, short(owned.get(i)), short(b)));
        }
        if i >= 1 && i <= n {
            if b != expected[i - 1].as_deref() {
                bad.push(format!("capture {} is {:?}, expected {:?}", i, short(b), short(expected[i - 1].as_deref())));
            }
            if let Some(t) = b {
                match offset_in(path, t) {
                    Some((start, end)) => {
                        if start < last_end {
                            bad.push(format!("capture {} starts at {} before the end {} of the previous one", i, start, last_end));
                        }
                        last_end = end;
                    },
                    None => bad.push(format!("capture {} is not a slice of the path", i)),
                }
            }
        }
        if i > n && b.is_some() {
            bad.push(format!("capture {} exists although the glob has {} capturing sub-expressions", i, n));
        }
    }
    let into = g.matched(&cand).map(|m| m.into_owned());
    if let Some(o) = into {
        for i in 0..=n + 1 {
            if o.get(i) != m.get(i) {
                bad.push(format!("into_owned capture {} is {:?}, borrowed is {:?}", i, short(o.get(i)), short(m.get(i))));
            }
        }
    }
    // the owned glob answers the same way
    let og = g.clone().into_owned();
    if let Some(om) = og.matched(&cand) {
        for i in 0..=n + 1 {
            if om.get(i) != m.get(i) {
                bad.push(format!("capture {} of the owned glob is {:?}, of the borrowed glob {:?}", i, short(om.get(i)), short(m.get(i))));
            }
        }
    }
    else {
        bad.push("the owned glob does not match".to_string());
    }
    bad
}

pub fn replay_long_captures(case: &serde_json::Value) -> bool {
    let e = case["expression"].as_str().unwrap_or("");
    let bytes = case["path_bytes"].as_u64().unwrap_or(0) as usize;
    let mut bad = false;
    for tier in [Tier::Quick, Tier::Thorough] {
        for (expr, path, expected) in long_path_cases(tier) {
            if expr == e && path.len() == bytes {
                let Some(g) = crate::model::build_ok(&expr) else { continue };
                let problems = guard(|| long_path_problems(&g, &path, &expected)).unwrap_or_else(|p| vec![format!("panic: {}", p)]);
                println!("`{}` on a path of {} bytes: {:?}", expr, bytes, problems);
                bad |= !problems.is_empty();
                return bad;
            }
        }
    }
    bad
}

pub fn c04(tier: Tier) -> i32 {
    let rep = Report::new("C04", tier, "exploration");
    let long_cases = check_long_paths(&rep, tier);
    rep.add("long_path_cases", long_cases);
    let mut opts = SpaceOpts::standard(tier);
    opts.subst_pairs = 0;
    opts.subst_single = tier.pick(2, 3);
    if tier == Tier::Thorough {
        // every expression costs an enumeration of all live paths up to the length bound
        // (measured: the standard thorough space did not finish in 47 minutes on 16 cores): the
        // thorough tier keeps the quick shapes, adds the reduced alphabet at size 5 and the full
        // wrapper set at nesting depth 2, and raises the path length and alphabet bounds
        opts.shape = 4;
        opts.reduced = 5;
        opts.position = 2;
        opts.position_full = 2;
    }
    let l = tier.pick(4usize, 6usize);
    let max_alpha = tier.pick(5usize, 6usize);
    for_each_glob(&rep, &opts, &|e, g, c| {
        let Ok(dfa) = model::dfa_of_glob(g) else { return };
        let Ok(alphabet) = automata::alphabet(&[dfa.pattern.as_str()], &[]) else { return };
        let mut named = vec![];
        named_chars(&e.ast, &mut named);
        let alphabet = thin(&alphabet, &named, max_alpha);
        let cm = build_capture_model(&e.ast);
        // the glob reports its capturing sub-expressions one-to-one
        let reported = g.captures().count();
        if reported != cm.caps.len() {
            rep.alarm(Alarm {
                class: None,
                key: format!("count {}", e.text),
                msg: format!("`{}` reports {} capturing sub-expressions, the expression has {}", e.text, reported, cm.caps.len()),
                case: json!({"kind": "captures", "expression": e.text, "path": ""}),
            });
        }
        // ... and each reported capturing token IS the corresponding capturing sub-expression (index
        // and span), also after partitioning, where spans refer to the postfix expression
        crate::props_total::check_capture_spans(&rep, c, &e.text, &e.text, g);
        if let Ok((_, Some(post))) = guard(|| g.clone().partition()) {
            let ptext = post.to_string();
            if Glob::new(&ptext).is_ok() {
                crate::props_total::check_capture_spans(&rep, c, &e.text, &ptext, &post);
                bump(c, "partitioned_capture_sets_checked", 1);
            }
        }
        let (spec_ok, u2, u3, ref_dfa) = match lang::reference(&e.ast, &Deviations::default()) {
            lang::Spec::Specified(r) => (true, r.u2, r.u3, Dfa::new(&r.regex).ok()),
            _ => (false, false, false, None),
        };
        if !spec_ok {
            bump(c, "language_laws_skipped_unspecified", 1);
        }
        let cm_d1 = build_capture_model_with(&e.ast, &Deviations { d1: true, ..Default::default() });
        let cm_mirror = build_capture_model_with(&e.ast, &Deviations { d1: true, d4: true, ..Default::default() });
        let mut gap_cache_mirror = std::collections::HashMap::new();
        let mirror_dfa = if refmodel::lang::has_tree(&e.ast) { Dfa::new(&lang::mirror_regex(&e.ast)).ok() } else { None };
        let mut gap_cache = std::collections::HashMap::new();
        let mut gap_cache_d1 = std::collections::HashMap::new();
        let mut reported_alarm = false;
        let mut reported_classes: std::collections::BTreeSet<Option<String>> = std::collections::BTreeSet::new();
        let mut bad_paths = 0u32;
        let mut matching = 0u64;
        let mut paths = 0u64;
        let mut nonconforming = 0u64;
        let complete = live_paths(&dfa, &alphabet, l, 4000, &mut |path, accepted| {
            paths += 1;
            // matched.is_some() <=> is_match (both directions, through the public API)
            let is = g.is_match(path);
            let cand = CandidatePath::from(path);
            let some = g.matched(&cand).is_some();
            if is != some || is != accepted {
                if !reported_alarm {
                    reported_alarm = true;
                    rep.alarm(Alarm {
                        class: None,
                        key: format!("iff {}", e.text),
                        msg: format!("`{}` on {:?}: is_match = {}, matched().is_some() = {}, automaton = {}", e.text, path, is, some, accepted),
                        case: json!({"kind": "captures", "expression": e.text, "path": path}),
                    });
                }
                return;
            }
            if !is {
                return;
            }
            matching += 1;
            // the language laws are only demanded where the documented meaning is specified
            // (U1 empty component, U2 / U3 rootedness)
            // ... and only for matches that conform to the documented language at all: a match
            // outside it is C01's alarm, and its captures cannot satisfy language laws
            let conforming = ref_dfa.as_ref().map_or(false, |d| d.accepts(path));
            let specified_here = spec_ok
                && !path.contains("//")
                && !(u2 && path.starts_with('/'))
                && !(u3 && !path.starts_with('/'));
            // a match outside the documented language that a recorded C01 deviation (D1 / D4,
            // the encoder's mirror) explains is left to C01; any other one is judged here too
            let explained = !conforming
                && refmodel::lang::has_tree(&e.ast)
                && mirror_dfa.as_ref().map_or(false, |d| d.accepts(path));
            if specified_here && explained {
                nonconforming += 1;
            }
            let specified_here = specified_here && !explained;
            let bad = capture_laws(g, &e.ast, &cm, specified_here, path, &mut gap_cache);
            if !bad.is_empty() && bad_paths < 64 {
                bad_paths += 1;
                // recorded finding: a rooted-first tree wildcard captures part of a component
                // (deviation D1): attributed only if the laws hold under exactly that deviation
                let under_d1 = capture_laws(g, &e.ast, &cm_d1, specified_here, path, &mut gap_cache_d1);
                let structural_only_tree = bad.iter().all(|b| b.contains("tree wildcard is not a run of complete components") || b.contains("is not matched by its own") || b.contains("is not what the literals"));
                let has_rooted_tree = refmodel::lang::has_tree(&e.ast) && e.text.contains("/**");
                let class = if has_rooted_tree && structural_only_tree && under_d1.iter().all(|b| b.contains("tree wildcard is not a run of complete components")) {
                    Some("rooted-first-tree-optional-separator".to_string())
                }
                else if refmodel::astops::nested_tree(&e.ast, false) && structural_only_tree && {
                    // recorded finding D4 (with D1): the form of a tree wildcard nested in branches is
                    // chosen by the encoder's position logic, so the capturing sub-expression means
                    // something else in this context than the documented semantics says:
                    // attributed only if the laws hold under exactly the encoder's mirror
                    let under_mirror = capture_laws(g, &e.ast, &cm_mirror, specified_here, path, &mut gap_cache_mirror);
                    under_mirror.iter().all(|b| b.contains("tree wildcard is not a run of complete components"))
                } {
                    Some("nested-tree-position".to_string())
                }
                else {
                    None
                };
                // one alarm per (expression, class): a path that no recorded finding explains is
                // reported even if a shorter one is explained
                if !reported_classes.insert(class.clone()) {
                    return;
                }
                rep.alarm(Alarm {
                    class: class.clone(),
                    key: format!("{} {:?}", e.text, class),
                    msg: format!("`{}` on {:?}: {}", e.text, path, bad.join("; ")),
                    case: json!({"kind": "captures", "expression": e.text, "path": path}),
                });
            }
        });
        bump(c, "paths", paths);
        bump(c, "matching_pairs", matching);
        bump(c, "matches_explained_by_recorded_C01_deviation_left_to_C01", nonconforming);
        if !complete {
            bump(c, "expressions_capped", 1);
        }
        if e.text.len() <= 2 {
            rep.sample(json!({"expression": e.text, "alphabet": alphabet.iter().collect::<String>(), "matching_paths": matching}));
        }
    });
    let evaluations = rep.get("paths");
    let distinct = rep.get("matching_pairs");
    rep.finish(
        json!({
            "evaluations": evaluations,
            "distinct_nontrivial": distinct,
            "rule": format!("the long-path family (paths of 2^8, 2^16 (2^17, 2^20 thorough) bytes plus/minus one, captures beginning and ending beyond the boundary, a multi-byte character straddling it; borrowed = to_owned = into_owned = owned glob = stated expectation); every built expression of the program space x every path of length <= {} over at most {} representative characters that keeps the implementation's automaton alive (every accepted path up to the bound is visited; at most 4000 accepted paths per expression); the capture laws of DESIGN Appendix E through Program::matched; distinct_nontrivial = matching (expression, path) pairs", l, max_alpha),
            "exhaustive": rep.get("expressions_capped") == 0,
            "path_length_bound": l,
        }),
        vec![
            "captures are not a regular property of the automaton: path length is bounded here".into(),
            "a non-participating capture is accepted for tree wildcards only".into(),
        ],
    )
}

pub fn replay_captures(case: &serde_json::Value) -> bool {
    let e = case["expression"].as_str().unwrap();
    let path = case["path"].as_str().unwrap_or("");
    let g = Glob::new(e).unwrap();
    let ast = syntax::parse(e).unwrap();
    let cm = build_capture_model(&ast);
    let spec_ok = matches!(lang::reference(&ast, &Deviations::default()), lang::Spec::Specified(_));
    let cand = CandidatePath::from(path);
    println!("`{}` on {:?}: is_match = {}", e, path, g.is_match(path));
    if let Some(m) = g.matched(&cand) {
        for i in 0..=cm.caps.len() + 1 {
            println!("  get({}) = {:?}", i, m.get(i));
        }
    }
    else {
        println!("  matched() = None");
    }
    if g.captures().count() != cm.caps.len() {
        println!("  captures().count() = {}, expected {}", g.captures().count(), cm.caps.len());
        return true;
    }
    if g.is_match(path) != g.matched(&cand).is_some() {
        return true;
    }
    if !g.is_match(path) {
        return false;
    }
    let bad = capture_laws(&g, &ast, &cm, spec_ok, path, &mut std::collections::HashMap::new());
    for b in &bad {
        println!("  {}", b);
    }
    !bad.is_empty()
}

// ---------------------------------------------------------------------------------------------
// C19
// ---------------------------------------------------------------------------------------------

#[derive(Debug, PartialEq, Eq)]
struct Answers {
    program: String,
    depth: String,
    text: String,
    root: String,
    exhaustive: String,
    captures: Vec<(usize, (usize, usize))>,
    semantic: bool,
    empty: bool,
    display: String,
}

fn answers(g: &Glob<'_>) -> Answers {
    Answers {
        program: g.verif_program_text().to_string(),
        depth: format!("{:?}", g.depth()),
        text: format!("{:?}", g.text()),
        root: format!("{:?}", g.has_root()),
        exhaustive: format!("{:?}", g.is_exhaustive()),
        captures: g.captures().map(|t| (t.index(), t.span())).collect(),
        semantic: g.has_semantic_literals(),
        empty: g.is_empty(),
        display: g.to_string(),
    }
}

#[derive(Debug, PartialEq, Eq)]
struct AnyAnswers {
    program: String,
    depth: String,
    text: String,
    root: String,
    exhaustive: String,
}

fn any_answers(a: &wax::Any<'_>) -> AnyAnswers {
    AnyAnswers {
        program: a.verif_program_text().to_string(),
        depth: format!("{:?}", a.depth()),
        text: format!("{:?}", a.text()),
        root: format!("{:?}", a.has_root()),
        exhaustive: format!("{:?}", a.is_exhaustive()),
    }
}

fn captured(g: &dyn Fn(&CandidatePath<'_>) -> Option<Vec<Option<String>>>, path: &str) -> Option<Vec<Option<String>>> {
    let c = CandidatePath::from(path);
    g(&c)
}

fn all_captures(m: &wax::MatchedText<'_>, n: usize) -> Vec<Option<String>> {
    (0..=n + 1).map(|i| m.get(i).map(|s| s.to_string())).collect()
}

pub fn c19(tier: Tier) -> i32 {
    let rep = Report::new("C19", tier, "exploration");
    let long_cases = check_long_paths(&rep, tier);
    rep.add("long_path_cases", long_cases);
    let mut opts = SpaceOpts::standard(tier);
    opts.subst_pairs = 0;
    opts.subst_single = tier.pick(2, 3);
    if tier == Tier::Thorough {
        // every expression costs a dozen conversions and an enumeration of all live paths
        // (measured: the standard thorough space does not finish in 25 minutes on 16 cores): the
        // thorough tier keeps the quick shapes, adds the reduced alphabet at size 5 and the full
        // wrapper set at nesting depth 2, and raises the path length bound
        opts.shape = 4;
        opts.reduced = 5;
        opts.position = 2;
        opts.position_full = 2;
    }
    let l = tier.pick(4usize, 6usize);
    for_each_glob(&rep, &opts, &|e, g, c| {
        let base = answers(g);
        if e.text.len() <= 2 || e.pass == "corpus" {
            rep.sample(json!({"expression": e.text, "program": base.program, "routes": ["Display+new", "Clone", "into_owned", "FromStr", "TryFrom", "any([text])", "any([compiled])", "any([owned])", "any([any])", "partition owned/borrowed", "MatchedText to_owned/into_owned"]}));
        }
        let mut routes: Vec<(&'static str, Glob<'static>)> = vec![];
        let shown = g.to_string();
        match Glob::new(&shown) {
            Ok(r) => routes.push(("Display+new", r.into_owned())),
            Err(err) => {
                rep.alarm(Alarm {
                    class: None,
                    key: format!("display {}", e.text),
                    msg: format!("`{}` displays as `{}`, which does not build: {}", e.text, shown, err),
                    case: json!({"kind": "routes", "expression": e.text, "route": "Display+new"}),
                });
            },
        }
        routes.push(("Clone", g.clone().into_owned()));
        routes.push(("into_owned", g.clone().into_owned()));
        if let Ok(r) = Glob::from_str(&e.text) {
            routes.push(("FromStr", r));
        }
        else {
            rep.alarm(Alarm {
                class: None,
                key: format!("fromstr {}", e.text),
                msg: format!("`{}` builds with Glob::new but not with FromStr", e.text),
                case: json!({"kind": "routes", "expression": e.text, "route": "FromStr"}),
            });
        }
        match Glob::try_from(e.text.as_str()) {
            Ok(r) => routes.push(("TryFrom", r.into_owned())),
            Err(_) => rep.alarm(Alarm {
                class: None,
                key: format!("tryfrom {}", e.text),
                msg: format!("`{}` builds with Glob::new but not with TryFrom", e.text),
                case: json!({"kind": "routes", "expression": e.text, "route": "TryFrom"}),
            }),
        }
        // clone of the borrowed glob without owning
        let cloned = g.clone();
        if answers(&cloned) != base {
            rep.alarm(Alarm {
                class: None,
                key: format!("clone {}", e.text),
                msg: format!("`{}`: a clone answers the queries differently: {:?} vs {:?}", e.text, answers(&cloned), base),
                case: json!({"kind": "routes", "expression": e.text, "route": "Clone"}),
            });
        }
        for (name, r) in &routes {
            bump(c, "routes", 1);
            let a = answers(r);
            if a != base {
                rep.alarm(Alarm {
                    class: None,
                    key: format!("{} {}", name, e.text),
                    msg: format!("`{}` via {}: answers differ: {:?} vs {:?}", e.text, name, a, base),
                    case: json!({"kind": "routes", "expression": e.text, "route": name}),
                });
            }
        }
        // combinator routes
        let at = wax::any([e.text.as_str()]).ok().map(|a| any_answers(&a));
        let ac = wax::any([g.clone()]).ok().map(|a| any_answers(&a));
        let ao = wax::any([g.clone().into_owned()]).ok().map(|a| any_answers(&a));
        let an = wax::any([e.text.as_str()]).ok().and_then(|a| wax::any([a]).ok()).map(|a| any_answers(&a));
        bump(c, "routes", 4);
        for (name, other) in [("any([compiled])", &ac), ("any([owned])", &ao)] {
            if *other != at {
                rep.alarm(Alarm {
                    class: None,
                    key: format!("{} {}", name, e.text),
                    msg: format!("`{}`: {} differs from any([text]): {:?} vs {:?}", e.text, name, other, at),
                    case: json!({"kind": "routes", "expression": e.text, "route": name}),
                });
            }
        }
        // a nested combinator has the same language (group structure may differ): compare queries
        if let (Some(n), Some(t)) = (&an, &at) {
            if (n.depth.as_str(), n.text.as_str(), n.root.as_str(), n.exhaustive.as_str()) != (t.depth.as_str(), t.text.as_str(), t.root.as_str(), t.exhaustive.as_str()) {
                rep.alarm(Alarm {
                    class: None,
                    key: format!("nested {}", e.text),
                    msg: format!("`{}`: any([any([text])]) answers differ from any([text]): {:?} vs {:?}", e.text, n, t),
                    case: json!({"kind": "routes", "expression": e.text, "route": "any([any])"}),
                });
            }
        }
        // partition of owned vs borrowed
        let pb = g.clone().partition();
        let po = g.clone().into_owned().partition();
        let show = |p: &(std::path::PathBuf, Option<Glob<'_>>)| (p.0.clone(), p.1.as_ref().map(|g| (g.to_string(), g.verif_program_text().to_string(), g.captures().map(|t| t.span()).collect::<Vec<_>>())));
        if show(&pb) != show(&po) {
            rep.alarm(Alarm {
                class: None,
                key: format!("partition {}", e.text),
                msg: format!("`{}`: partition of the owned glob differs: {:?} vs {:?}", e.text, show(&po), show(&pb)),
                case: json!({"kind": "routes", "expression": e.text, "route": "partition"}),
            });
        }
        // the partitioned glob displayed and rebuilt: wherever both match a path, the same captures
        // (the partitioned glob is compiled from a transformed token tree, the rebuilt one from
        // text; what they match where they differ is C08's business)
        if let (_, Some(post)) = &pb {
            let ptext = post.to_string();
            if let Some(rebuilt) = model::build_ok(&ptext) {
                if let Ok(pdfa) = model::dfa_of_glob(post) {
                    if let Ok(alpha) = automata::alphabet(&[pdfa.pattern.as_str()], &[]) {
                        let mut named = vec![];
                        named_chars(&e.ast, &mut named);
                        let alpha = thin(&alpha, &named, 4);
                        let k = post.captures().count().max(rebuilt.captures().count());
                        let mut done = false;
                        bump(c, "routes", 1);
                        live_paths(&pdfa, &alpha, l.min(4), 400, &mut |path, _| {
                            if done {
                                return;
                            }
                            let a = captured(&|c| post.matched(c).map(|m| all_captures(&m, k)), path);
                            let b = captured(&|c| rebuilt.matched(c).map(|m| all_captures(&m, k)), path);
                            if let (Some(a), Some(b)) = (&a, &b) {
                                if a != b {
                                    done = true;
                                    rep.alarm(Alarm {
                                        class: None,
                                        key: format!("partition display {}", e.text),
                                        msg: format!("`{}`: its partitioned glob displays as `{}`; on {:?} the partitioned glob captures {:?} but the glob built from that text captures {:?}", e.text, ptext, path, a, b),
                                        case: json!({"kind": "routes", "expression": e.text, "route": "partition display", "path": path}),
                                    });
                                }
                            }
                        });
                    }
                }
            }
        }
        // matched text on every live path, every index, owned vs borrowed, every route
        let Ok(dfa) = model::dfa_of_glob(g) else { return };
        let Ok(alphabet) = automata::alphabet(&[dfa.pattern.as_str()], &[]) else { return };
        let mut named = vec![];
        named_chars(&e.ast, &mut named);
        let alphabet = thin(&alphabet, &named, 5);
        let n = g.captures().count();
        let mut reported = false;
        let mut pairs = 0u64;
        let anyc = wax::any([g.clone()]).ok();
        live_paths(&dfa, &alphabet, l, 1500, &mut |path, _| {
            if reported {
                return;
            }
            pairs += 1;
            let reference = captured(&|c| g.matched(c).map(|m| all_captures(&m, n)), path);
            let mut others: Vec<(&str, Option<Vec<Option<String>>>)> = vec![];
            for (name, r) in &routes {
                others.push((name, captured(&|c| r.matched(c).map(|m| all_captures(&m, n)), path)));
            }
            others.push(("to_owned", captured(&|c| g.matched(c).map(|m| all_captures(&m.to_owned(), n)), path)));
            others.push(("into_owned", captured(&|c| g.matched(c).map(|m| all_captures(&m.into_owned(), n)), path)));
            if let Some(a) = &anyc {
                // the combinator wraps the pattern in one more group: index i+1 there
                let am = captured(&|c| a.matched(c).map(|m| vec![m.get(0).map(|s| s.to_string())]), path);
                let want = reference.as_ref().map(|r| vec![r[0].clone()]);
                if am != want {
                    others.push(("any([compiled]).matched", am.map(|mut v| { v.resize(n + 2, None); v })));
                }
            }
            for (name, o) in others {
                if o != reference && !reported {
                    reported = true;
                    // recorded finding (C07): wrapping in a combinator changes the position a
                    // nested tree wildcard is encoded for; attributed only if the encoder's
                    // mirror predicts both answers
                    let class = if name.starts_with("any(") && refmodel::astops::nested_tree(&e.ast, false) {
                        let wrapped: Seq = vec![Node::new(Kind::Alt(vec![e.ast.clone()]))];
                        let pred = |a: &Seq, real: bool| Dfa::new(&lang::mirror_regex(a)).map_or(false, |d| d.accepts(path) == real);
                        if pred(&wrapped, o.is_some()) && pred(&e.ast, reference.is_some()) { Some("nested-tree-position".to_string()) } else { None }
                    }
                    else {
                        None
                    };
                    rep.alarm(Alarm {
                        class,
                        key: format!("matched {} {}", name, e.text),
                        msg: format!("`{}` on {:?}: matched text via {} is {:?}, directly {:?}", e.text, path, name, o, reference),
                        case: json!({"kind": "routes", "expression": e.text, "route": name, "path": path}),
                    });
                }
            }
        });
        bump(c, "matched_pairs", pairs);
    });
    let evaluations = rep.get("routes") + rep.get("matched_pairs");
    let distinct = rep.get("built");
    rep.finish(
        json!({
            "evaluations": evaluations,
            "distinct_nontrivial": distinct,
            "rule": format!("the long-path family (paths of 2^8, 2^16 (2^17, 2^20 thorough) bytes plus/minus one); every built expression of the program space x routes {{Display+new, Clone, into_owned, FromStr, TryFrom, any([text]) / any([compiled]) / any([owned]) / nested any, partition of owned vs borrowed}}: equal compiled pattern text (hook H1), equal answers to every query, and equal matched text at every index (borrowed, to_owned, into_owned) on every live path of length <= {}; distinct_nontrivial = built expressions", l),
            "exhaustive": true,
            "path_length_bound": l,
        }),
        vec!["equal pattern text implies equal language and group structure (same regex front end)".into()],
    )
}

pub fn replay_routes(case: &serde_json::Value) -> bool {
    let e = case["expression"].as_str().unwrap();
    let g = Glob::new(e).unwrap();
    let base = answers(&g);
    println!("`{}`: {:?}", e, base);
    let mut bad = false;
    let shown = g.to_string();
    match Glob::new(&shown) {
        Ok(r) => {
            let a = answers(&r);
            if a != base {
                println!("  Display+new: {:?}", a);
                bad = true;
            }
        },
        Err(err) => {
            println!("  Display `{}` does not build: {}", shown, err);
            bad = true;
        },
    }
    let o = g.clone().into_owned();
    if answers(&o) != base {
        println!("  into_owned: {:?}", answers(&o));
        bad = true;
    }
    if let Ok(r) = Glob::from_str(e) {
        if answers(&r) != base {
            println!("  FromStr: {:?}", answers(&r));
            bad = true;
        }
    }
    let at = wax::any([e]).ok().map(|a| any_answers(&a));
    let ac = wax::any([g.clone()]).ok().map(|a| any_answers(&a));
    let ao = wax::any([g.clone().into_owned()]).ok().map(|a| any_answers(&a));
    if at != ac || at != ao {
        println!("  any([text]) {:?}\n  any([compiled]) {:?}\n  any([owned]) {:?}", at, ac, ao);
        bad = true;
    }
    if let Some(path) = case["path"].as_str() {
        let n = g.captures().count();
        let c = CandidatePath::from(path);
        let direct = g.matched(&c).map(|m| all_captures(&m, n));
        let owned = g.matched(&c).map(|m| all_captures(&m.to_owned(), n));
        let via = o.matched(&c).map(|m| all_captures(&m, n));
        println!("  on {:?}: direct {:?}; to_owned {:?}; owned glob {:?}", path, direct, owned, via);
        if direct != owned || direct != via {
            bad = true;
        }
    }
    bad
}
