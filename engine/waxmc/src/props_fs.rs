//! File-system properties on real walks over exhaustively enumerated tmpfs worlds:
//! C02 (walk = matching files), C14 (entry consistency).

use rayon::prelude::*;
use refmodel::fsworld::{self, FKind, FNode, RItem, World};
use refmodel::gen::{Gen, GenCfg};
use refmodel::syntax::{self, Seq};
use serde_json::{json, Value};
use std::collections::BTreeMap;
use std::path::{Path, PathBuf};
use wax::walk::LinkBehavior;
use wax::{Glob, Program};

use crate::common::{guard, Alarm, Report, Tier};
use crate::fswalk::{self, Got, Place, Scratch};
use crate::model::{self, bump, Counters};

pub const NAMES: [&str; 3] = ["a", "b", ".a"];

/// Built file-system globs of size <= n (text).
pub fn fs_globs(n: usize) -> Vec<String> {
    let g = Gen::new(GenCfg::fsglobs(), n);
    let mut out = vec![String::new()];
    for size in 1..=n {
        g.for_each_exact(size, &mut |s: &Seq| {
            let t = syntax::to_text(s);
            if model::build_ok(&t).is_some() {
                out.push(t);
            }
        });
    }
    out.sort();
    out.dedup();
    out
}

pub fn world_json(w: &World) -> Value {
    serde_json::from_str(&w.root.to_json()).unwrap_or(Value::Null)
}

pub fn world_from_json(v: &Value) -> World {
    fn node(v: &Value) -> FNode {
        let name = v["n"].as_str().unwrap_or("").to_string();
        if let Some(t) = v["l"].as_str() {
            FNode { name, kind: FKind::Link { target: t.to_string() } }
        }
        else if let Some(c) = v["c"].as_array() {
            FNode {
                name,
                kind: FKind::Dir { children: c.iter().map(node).collect(), readable: v["r"].as_bool().unwrap_or(true) },
            }
        }
        else {
            FNode { name, kind: FKind::File }
        }
    }
    World { root: node(v) }
}

pub fn link_name(l: LinkBehavior) -> &'static str {
    match l {
        LinkBehavior::ReadFile => "ReadFile",
        LinkBehavior::ReadTarget => "ReadTarget",
    }
}

pub fn link_from(name: &str) -> LinkBehavior {
    if name == "ReadTarget" {
        LinkBehavior::ReadTarget
    }
    else {
        LinkBehavior::ReadFile
    }
}

/// All entries of a link-free world: (relative text, is_dir), pre-order, root excluded.
pub fn all_entries(w: &World) -> Vec<(String, bool)> {
    fsworld::traverse(w, &[], false)
        .into_iter()
        .filter_map(|it| match it {
            RItem::Entry { rel, kind } if !rel.is_empty() => Some((rel.join("/"), kind == fsworld::EKind::Dir)),
            _ => None,
        })
        .collect()
}

fn multiset(v: impl IntoIterator<Item = String>) -> BTreeMap<String, usize> {
    let mut m = BTreeMap::new();
    for x in v {
        *m.entry(x).or_insert(0) += 1;
    }
    m
}

#[derive(Clone, Copy, PartialEq, Eq, Debug)]
pub enum Spelling {
    Abs,
    AbsSlash,
    Rel,
    DotRel,
    RelSlash,
    RelDot,
}

pub const SPELLINGS: [Spelling; 6] =
    [Spelling::Abs, Spelling::AbsSlash, Spelling::Rel, Spelling::DotRel, Spelling::RelSlash, Spelling::RelDot];

pub fn spell(place: &Place, s: Spelling) -> PathBuf {
    let rel = place.rel.to_string_lossy().to_string();
    let abs = place.abs.to_string_lossy().to_string();
    PathBuf::from(match s {
        Spelling::Abs => abs,
        Spelling::AbsSlash => format!("{}/", abs),
        Spelling::Rel => rel,
        Spelling::DotRel => format!("./{}", rel),
        Spelling::RelSlash => format!("{}/", rel),
        Spelling::RelDot => format!("{}/.", rel),
    })
}

pub fn spelling_name(s: Spelling) -> &'static str {
    match s {
        Spelling::Abs => "abs",
        Spelling::AbsSlash => "abs/",
        Spelling::Rel => "rel",
        Spelling::DotRel => "./rel",
        Spelling::RelSlash => "rel/",
        Spelling::RelDot => "rel/.",
    }
}

pub fn spelling_from(name: &str) -> Spelling {
    SPELLINGS.iter().copied().find(|s| spelling_name(*s) == name).unwrap_or(Spelling::Abs)
}

/// How a special glob is derived from a plain one.
#[derive(Clone, Copy, PartialEq, Eq, Debug)]
pub enum Variant {
    Plain,
    /// `escape(abs tree root)/g`, base unrelated
    Rooted,
    /// `./g`
    Dot,
    /// `../g` with the base being the sub-directory `a` (when it exists)
    DotDot,
    /// `a/../g`
    Through,
    /// the base is the empty path and the expression spells the tree root relative to the
    /// working directory: `escape(rel tree root)/g`
    EmptyBase,
}

pub fn variant_name(v: Variant) -> &'static str {
    match v {
        Variant::Plain => "plain",
        Variant::Rooted => "rooted",
        Variant::Dot => "dot",
        Variant::DotDot => "dotdot",
        Variant::Through => "through",
        Variant::EmptyBase => "emptybase",
    }
}

pub fn variant_from(n: &str) -> Variant {
    match n {
        "rooted" => Variant::Rooted,
        "dot" => Variant::Dot,
        "dotdot" => Variant::DotDot,
        "through" => Variant::Through,
        "emptybase" => Variant::EmptyBase,
        _ => Variant::Plain,
    }
}

/// (expression, base directory, text that precedes the tree-root-relative path in the glob's
/// candidate path) for a variant; None if not applicable to this world.
pub fn variant_setup(place: &Place, world: &World, g: &str, v: Variant, sp: Spelling) -> Option<(String, PathBuf, String)> {
    let base = spell(place, sp);
    let join = |prefix: &str| if g.is_empty() { prefix.trim_end_matches('/').to_string() } else { format!("{}{}", prefix, g) };
    match v {
        Variant::Plain => Some((g.to_string(), base, String::new())),
        Variant::Rooted => {
            if g.starts_with('/') || g.starts_with("**") {
                return None;
            }
            let abs = place.abs.to_string_lossy().to_string();
            let esc = wax::escape(&abs).to_string();
            Some((join(&format!("{}/", esc)), PathBuf::from("/nonexistent-base"), format!("{}/", abs)))
        },
        Variant::Dot => {
            if g.starts_with('/') || g.starts_with("**") {
                return None;
            }
            Some((join("./"), base, "./".to_string()))
        },
        Variant::DotDot => {
            if g.starts_with('/') || g.starts_with("**") {
                return None;
            }
            let a = world.root.children().iter().find(|c| c.name == "a" && c.is_dir())?;
            let _ = a;
            Some((join("../"), base.join("a"), "../".to_string()))
        },
        Variant::Through => {
            if g.starts_with('/') || g.starts_with("**") {
                return None;
            }
            world.root.children().iter().find(|c| c.name == "a" && c.is_dir())?;
            Some((join("a/../"), base, "a/../".to_string()))
        },
        Variant::EmptyBase => {
            if g.starts_with('/') || g.starts_with("**") {
                return None;
            }
            let rel = place.rel.to_string_lossy().to_string();
            let esc = wax::escape(&rel).to_string();
            Some((join(&format!("{}/", esc)), PathBuf::new(), format!("{}/", rel)))
        },
    }
}

fn case_json(world: &World, expr: &str, variant: Variant, sp: Spelling, link: LinkBehavior, g: &str) -> Value {
    json!({
        "kind": "walk",
        "world": world_json(world),
        "glob": g,
        "expression": expr,
        "variant": variant_name(variant),
        "spelling": spelling_name(sp),
        "link": link_name(link),
    })
}

pub struct WalkOutcome {
    pub got: Vec<Got>,
    pub expected: BTreeMap<String, usize>,
    pub yielded: BTreeMap<String, usize>,
    pub errors: usize,
    pub base_yielded: bool,
    pub base_allowed: bool,
    pub prefix_text: String,
    pub base: PathBuf,
    pub expr: String,
}

/// Runs one glob walk in a link-free world and computes the reference.
pub fn run_plain_walk(
    place: &Place,
    world: &World,
    g: &str,
    variant: Variant,
    sp: Spelling,
    link: LinkBehavior,
) -> Option<Result<WalkOutcome, String>> {
    let (expr, base, prefix_text) = variant_setup(place, world, g, variant, sp)?;
    let r = guard(|| {
        let glob = Glob::new(&expr).map_err(|e| format!("{}", e))?;
        // safety: never traverse anything outside the scratch area (a rooted glob would walk
        // the machine's real file system)
        let (anchor, _) = glob.verif_walk_anchor(base.clone());
        let anchor_abs = if anchor.is_absolute() { anchor.clone() } else { std::env::current_dir().unwrap_or_default().join(&anchor) };
        if !anchor_abs.starts_with(place.abs.parent().unwrap_or(&place.abs)) && !anchor_abs.starts_with("/nonexistent-base") {
            return Err(format!("SKIP traversal root {:?} lies outside the scratch area", anchor));
        }
        let got = fswalk::collect_glob(glob.walk_with_behavior(base.clone(), link), 20 * (world.entries() + 2) + 50)
            .ok_or_else(|| "walk does not terminate (item cap hit)".to_string())?;
        // reference: every entry of the tree whose candidate path matches
        let mut expected = vec![];
        for (rel, _) in all_entries(world) {
            let cand = format!("{}{}", prefix_text, rel);
            if glob.is_match(cand.as_str()) {
                expected.push(rel);
            }
        }
        // the tree root itself
        let root_cand = prefix_text.trim_end_matches('/').to_string();
        let root_cand = if variant == Variant::Rooted { root_cand } else if prefix_text.is_empty() { String::new() } else { root_cand };
        let base_allowed = glob.is_match(root_cand.as_str());
        let mut yielded = vec![];
        let mut errors = 0;
        let mut base_yielded = false;
        let tree_root = place.abs.canonicalize().unwrap_or(place.abs.clone());
        for it in &got {
            match it {
                Got::Ok(e) => {
                    // identify the file by its canonical location (native `.` / `..` resolved)
                    let real = std::fs::canonicalize(&e.path).unwrap_or(e.path.clone());
                    match fswalk::rel_text(&real, &tree_root) {
                        Some(t) if t.is_empty() => base_yielded = true,
                        Some(t) => yielded.push(t),
                        None => yielded.push(format!("<outside:{}>", e.path.display())),
                    }
                },
                Got::Err { .. } => errors += 1,
            }
        }
        Ok(WalkOutcome {
            got,
            expected: multiset(expected),
            yielded: multiset(yielded),
            errors,
            base_yielded,
            base_allowed,
            prefix_text: prefix_text.clone(),
            base: base.clone(),
            expr: expr.clone(),
        })
    });
    Some(match r {
        Ok(Ok(o)) => Ok(o),
        Ok(Err(e)) => Err(e),
        Err(p) => Err(format!("panic: {}", p)),
    })
}

/// C14 equations for one yielded entry; returns the list of failed equations.
pub fn entry_equations(e: &fswalk::GotEntry, glob: &Glob<'_>, base: &Path, rooted: bool) -> Vec<String> {
    let mut bad = vec![];
    if e.root.join(&e.rel) != e.path {
        bad.push(format!("root {:?} joined with relative {:?} is not the path {:?}", e.root, e.rel, e.path));
    }
    let comps = e.rel.components().count();
    let named = e.rel.components().filter(|c| !matches!(c, std::path::Component::RootDir)).count();
    if e.depth != comps && e.depth != named {
        bad.push(format!("depth {} but the relative segment {:?} has {} component(s)", e.depth, e.rel, named));
    }
    let rel_text = e.rel.to_string_lossy().to_string();
    if let Some(m) = &e.matched {
        if *m != rel_text {
            bad.push(format!("matched text {:?} is not the relative segment {:?}", m, rel_text));
        }
        if !glob.is_match(m.as_str()) {
            bad.push(format!("matched text {:?} is not matched by the glob", m));
        }
    }
    if let (Some(c), Some(m)) = (&e.candidate, &e.matched) {
        if c != m {
            bad.push(format!("candidate path {:?} differs from the matched text {:?}", c, m));
        }
    }
    if rooted {
        if !e.root.as_os_str().is_empty() {
            bad.push(format!("rooted glob but the root segment is {:?}", e.root));
        }
    }
    else if e.root != base {
        bad.push(format!("root segment {:?} is not the given directory {:?}", e.root, base));
    }
    bad
}

fn c02_classify(variant: Variant, o: &WalkOutcome) -> Option<String> {
    // rooted globs descend one level only: every missing entry lies >= 2 levels below the
    // invariant prefix, nothing extra
    let extra: Vec<&String> = o.yielded.keys().filter(|k| !o.expected.contains_key(*k)).collect();
    let missing: Vec<&String> = o.expected.keys().filter(|k| !o.yielded.contains_key(*k)).collect();
    let dup = o.yielded.values().any(|n| *n > 1);
    match variant {
        Variant::Rooted => {
            if extra.is_empty() && !dup && !missing.is_empty() && missing.iter().all(|m| m.split('/').count() >= 2) {
                return Some("rooted-walk-misaligned-components".into());
            }
            None
        },
        Variant::Dot => {
            // recorded: a `.` component in the invariant prefix is normalised away natively, so
            // the candidate path never contains it and nothing matches
            if extra.is_empty() && !dup && o.yielded.is_empty() {
                return Some("walk-with-current-directory-prefix".into());
            }
            None
        },
        Variant::DotDot | Variant::Through => None,
        Variant::Plain | Variant::EmptyBase => None,
    }
}

pub struct FsPlan {
    pub worlds: Vec<World>,
    pub globs: Vec<String>,
    pub special_globs: Vec<String>,
    pub spelling_globs: Vec<String>,
}

pub fn fs_plan(tier: Tier) -> FsPlan {
    let worlds = fsworld::worlds(tier.pick(3, 4), &NAMES, 3);
    let mut globs = fs_globs(3);
    // case flags in walked globs (the generated alphabet has none): the per-component programs
    // the walker prunes with must carry the flags of the whole expression
    for g in ["(?i)A", "(?i)A/*", "(?i)A/**", "(?i){A,B}/*", "a/(?i)B", "(?i)A/(?-i)b", "(?i)*/A", "**/(?i)A", "(?i).A/*", "(?i)<A/:1,2>b"] {
        if model::build_ok(g).is_some() {
            globs.push(g.to_string());
        }
    }
    let special_globs = fs_globs(2);
    let spelling_globs = fs_globs(tier.pick(1, 2));
    FsPlan { worlds, globs, special_globs, spelling_globs }
}

pub fn c02_c14(tier: Tier, which: &'static str) -> i32 {
    let rep = Report::new(which, tier, "exploration");
    let scratch = Scratch::new();
    let plan = fs_plan(tier);
    let extra_globs: Vec<String> = if tier == Tier::Thorough { fs_globs(4) } else { vec![] };
    let small_worlds = fsworld::worlds(3, &NAMES, 3);
    rep.add("worlds", plan.worlds.len() as u64);
    rep.add("globs", plan.globs.len() as u64);
    let distinct_outcomes = std::sync::Mutex::new(std::collections::BTreeSet::<String>::new());
    let check_world = |world: &World, globs: &[String], specials: bool| {
        let mut c = Counters::new();
        let place = fswalk::place(&scratch, world);
        if place.order_ok {
            bump(&mut c, "orders_realised", 1);
        }
        else {
            bump(&mut c, "orders_not_honoured", 1);
        }
        let mut local_outcomes: Vec<String> = vec![];
        let mut runs: Vec<(&str, Variant, Spelling, LinkBehavior)> = vec![];
        for g in globs {
            if !Glob::new(g).map_or(false, |x| x.has_root().is_never()) || g.starts_with('/') {
                continue; // rooted globs replace the base directory: only the Rooted variant walks them
            }
            for link in [LinkBehavior::ReadFile, LinkBehavior::ReadTarget] {
                runs.push((g.as_str(), Variant::Plain, Spelling::Abs, link));
            }
        }
        if specials {
            for g in &plan.spelling_globs {
                if !Glob::new(g).map_or(false, |x| x.has_root().is_never()) || g.starts_with('/') {
                    continue;
                }
                for sp in SPELLINGS.iter().skip(1) {
                    runs.push((g.as_str(), Variant::Plain, *sp, LinkBehavior::ReadFile));
                }
            }
            for g in &plan.special_globs {
                for v in [Variant::Rooted, Variant::Dot, Variant::DotDot, Variant::Through, Variant::EmptyBase] {
                    runs.push((g.as_str(), v, Spelling::Abs, LinkBehavior::ReadFile));
                }
            }
        }
        for (g, variant, sp, link) in runs {
            let Some(res) = run_plain_walk(&place, world, g, variant, sp, link) else {
                continue;
            };
            bump(&mut c, "walks", 1);
            let o = match res {
                Ok(o) => o,
                Err(msg) if msg.starts_with("SKIP") => {
                    bump(&mut c, "skipped_outside_scratch", 1);
                    if variant == Variant::Plain && Glob::new(g).map_or(false, |x| x.has_root().is_never()) {
                        rep.alarm(Alarm {
                            class: None,
                            key: format!("outside {} {}", world.describe(), g),
                            msg: format!("walk of the unrooted glob `{}` would start outside the given directory: {}", g, msg),
                            case: case_json(world, g, variant, sp, link, g),
                        });
                    }
                    continue;
                },
                Err(msg) => {
                    rep.alarm(Alarm {
                        class: None,
                        key: format!("fail {} {} {}", world.describe(), g, variant_name(variant)),
                        msg: format!("walk of `{}` ({}) in {} fails: {}", g, variant_name(variant), world.describe(), msg),
                        case: case_json(world, g, variant, sp, link, g),
                    });
                    continue;
                },
            };
            bump(&mut c, "entries_yielded", o.yielded.values().sum::<usize>() as u64);
            if which == "C02" {
                local_outcomes.push(format!("{:?}", o.yielded));
                let mut problems = vec![];
                if o.yielded != o.expected {
                    problems.push(format!("yielded {:?}, expected {:?}", o.yielded, o.expected));
                }
                if o.base_yielded && !o.base_allowed {
                    problems.push("the base itself is yielded although the glob does not match the empty path".to_string());
                }
                if o.errors > 0 {
                    // tolerated only when the walk starts at a prefix directory that is missing
                    let prefix_missing = o.yielded.is_empty() && o.expected.is_empty();
                    if prefix_missing {
                        bump(&mut c, "tolerated_missing_prefix_errors", 1);
                    }
                    else {
                        problems.push(format!("{} unexpected error item(s)", o.errors));
                    }
                }
                if !problems.is_empty() {
                    let class = if o.errors == 0 { c02_classify(variant, &o) } else { None };
                    rep.alarm(Alarm {
                        class,
                        key: format!("{} {} {} {} {}", world.describe(), o.expr.replace(place.abs.to_string_lossy().as_ref(), "<T>"), variant_name(variant), spelling_name(sp), link_name(link)),
                        msg: format!(
                            "walk of `{}` ({}, base {}, {}) in {}: {}",
                            o.expr.replace(place.abs.to_string_lossy().as_ref(), "<T>"),
                            variant_name(variant),
                            spelling_name(sp),
                            link_name(link),
                            world.describe(),
                            problems.join("; ")
                        ),
                        case: case_json(world, &o.expr, variant, sp, link, g),
                    });
                }
            }
            else {
                // C14
                let Ok(glob) = Glob::new(&o.expr) else { continue };
                let rooted = variant == Variant::Rooted;
                for it in &o.got {
                    if let Got::Ok(e) = it {
                        bump(&mut c, "entries_checked", 1);
                        local_outcomes.push(format!("{}|{}|{}", e.depth, e.rel.display(), rooted));
                        let bad = entry_equations(e, &glob, &o.base, rooted);
                        if !bad.is_empty() {
                            let only_depth = bad.len() == 1 && bad[0].starts_with("depth");
                            // mirror of the recorded finding: the pivot of a rooted glob is the number
                            // of components of the prefix plus one, so the reported depth is exactly
                            // one more than the number of components of the whole path
                            let mirrored = e.depth == e.rel.components().count() + 1;
                            let class = if rooted && only_depth && mirrored { Some("rooted-entry-depth".to_string()) } else { None };
                            rep.alarm(Alarm {
                                class,
                                key: format!("{} {} {} {} {:?}", world.describe(), g, variant_name(variant), spelling_name(sp), e.rel),
                                msg: format!(
                                    "entry {:?} of `{}` ({}, base {}) in {}: {}",
                                    e.path.to_string_lossy().replace(place.abs.to_string_lossy().as_ref(), "<T>"),
                                    o.expr.replace(place.abs.to_string_lossy().as_ref(), "<T>"),
                                    variant_name(variant),
                                    spelling_name(sp),
                                    world.describe(),
                                    bad.join("; ").replace(place.abs.to_string_lossy().as_ref(), "<T>")
                                ),
                                case: case_json(world, &o.expr, variant, sp, link, g),
                            });
                        }
                    }
                }
            }
        }
        // path walk entries for C14
        if which == "C14" && specials {
            use wax::walk::PathExt;
            for sp in SPELLINGS {
                let base = spell(&place, sp);
                if let Some(got) = fswalk::collect(base.as_path().walk(), 500) {
                    for it in &got {
                        if let Got::Ok(e) = it {
                            bump(&mut c, "entries_checked", 1);
                            let mut bad = vec![];
                            if e.root.join(&e.rel) != e.path {
                                bad.push("root joined with relative is not the path".to_string());
                            }
                            if e.depth != e.rel.components().count() {
                                bad.push(format!("depth {} but relative {:?}", e.depth, e.rel));
                            }
                            if e.root != base {
                                bad.push(format!("root {:?} is not the given directory {:?}", e.root, base));
                            }
                            if !bad.is_empty() {
                                rep.alarm(Alarm {
                                    class: None,
                                    key: format!("pathwalk {} {} {:?}", world.describe(), spelling_name(sp), e.rel),
                                    msg: format!("path walk entry {:?} (base {}) in {}: {}", e.rel, spelling_name(sp), world.describe(), bad.join("; ")),
                                    case: json!({"kind": "pathwalk", "world": world_json(world), "spelling": spelling_name(sp)}),
                                });
                            }
                        }
                    }
                }
            }
        }
        {
            let mut d = distinct_outcomes.lock().unwrap();
            for o in local_outcomes {
                if d.len() < 2_000_000 {
                    d.insert(o);
                }
            }
        }
        drop(place);
        rep.merge(&c);
    };
    plan.worlds.par_iter().for_each(|w| check_world(w, &plan.globs, true));
    // worlds with symbolic links, pruning globs, both link behaviours (reference traversal with
    // walkdir's link policy, shared with C15)
    if which == "C02" {
        use crate::props_links::{judge_depth_public, link_worlds, run_depth_walk, DepthSpec};
        let lworlds = link_worlds(tier);
        rep.add("link_worlds", lworlds.len() as u64);
        let pruning = ["{a,b}/**", "a/*", "*/a", "?/*", "b/**", "[!l]*/**", "[!l]/[!l]", "<[ab]:1,2>/**", "l/*", "**/l/*"];
        lworlds.par_iter().for_each(|world| {
            let mut c = Counters::new();
            let place = fswalk::place(&scratch, world);
            for g in pruning {
                for link in [LinkBehavior::ReadFile, LinkBehavior::ReadTarget] {
                    match run_depth_walk(&place, world, g, link, &DepthSpec::Unbounded) {
                        Ok(Some(o)) => {
                            bump(&mut c, "walks", 1);
                            bump(&mut c, "link_world_walks", 1);
                            let (problems, _) = judge_depth_public(&o, false);
                            if !problems.is_empty() {
                                rep.alarm(Alarm {
                                    class: None,
                                    key: format!("links {} {} {}", world.describe(), g, link_name(link)),
                                    msg: format!("walk of `{}` ({}) in {}: {}", g, link_name(link), world.describe(), problems.join("; ")),
                                    case: json!({"kind": "depthwalk", "world": world_json(world), "glob": g, "link": link_name(link), "depth": {"k": "unbounded"}}),
                                });
                            }
                        },
                        Ok(None) => {},
                        Err(msg) => rep.alarm(Alarm {
                            class: None,
                            key: format!("links fail {} {}", world.describe(), g),
                            msg: format!("walk of `{}` in {} fails: {}", g, world.describe(), msg),
                            case: json!({"kind": "depthwalk", "world": world_json(world), "glob": g, "link": link_name(link), "depth": {"k": "unbounded"}}),
                        }),
                    }
                }
            }
            drop(place);
            rep.merge(&c);
        });
    }
    if !extra_globs.is_empty() {
        // thorough: larger globs on the smaller worlds
        let only_new: Vec<String> = extra_globs.iter().filter(|g| !plan.globs.contains(g)).cloned().collect();
        rep.add("globs_size4", only_new.len() as u64);
        small_worlds.par_iter().for_each(|w| check_world(w, &only_new, false));
    }
    if which == "C02" {
        c02_prune_safety(&rep, tier, &scratch);
        // names that are pattern-like, hidden-like or non-ASCII
        let odd_worlds = fsworld::worlds(tier.pick(2, 3), &["*", "é", "[a]"], 2);
        let odd_globs = ["\\*", "[*]", "é", "?", "*", "\\[a\\]", "[\\[]a[\\]]", "**/é", "(?i)É", "**/\\*", "*/\\*", "{é,\\*}/*", "[!*]", "<[é*]:1,2>", "**"];
        rep.add("odd_name_worlds", odd_worlds.len() as u64);
        odd_worlds.par_iter().for_each(|world| {
            let mut c = Counters::new();
            let place = fswalk::place(&scratch, world);
            for g in odd_globs {
                if Glob::new(g).is_err() {
                    continue;
                }
                for link in [LinkBehavior::ReadFile, LinkBehavior::ReadTarget] {
                    if let Some(Ok(o)) = run_plain_walk(&place, world, g, Variant::Plain, Spelling::Abs, link) {
                        bump(&mut c, "walks", 1);
                        bump(&mut c, "odd_name_walks", 1);
                        let prefix_missing = o.yielded.is_empty() && o.expected.is_empty();
                        if o.yielded != o.expected || (o.base_yielded && !o.base_allowed) || (o.errors > 0 && !prefix_missing) {
                            rep.alarm(Alarm {
                                class: None,
                                key: format!("odd {} {}", world.describe(), g),
                                msg: format!("walk of `{}` in {}: yielded {:?}, expected {:?} (errors {})", g, world.describe(), o.yielded, o.expected, o.errors),
                                case: case_json(world, g, Variant::Plain, Spelling::Abs, link, g),
                            });
                        }
                    }
                }
            }
            drop(place);
            rep.merge(&c);
        });
    }
    if which == "C02" {
        // file names that are not valid UTF-8, and unusual valid ones: the walk yields exactly the
        // entries whose (lossily rendered) relative path the glob matches - a name the walker
        // cannot render must not shift or drop anything
        use std::ffi::OsStr;
        use std::os::unix::ffi::OsStrExt;
        let dir = scratch.root.join("bytes02");
        let _ = std::fs::remove_dir_all(&dir);
        let n1 = OsStr::from_bytes(b"caf\xE9");
        let n2 = OsStr::from_bytes(b"\xFF");
        let n3 = OsStr::from_bytes(b"a\xC0b.txt");
        let n4 = OsStr::from_bytes(b"d\xFF");
        let t = dir.join("t");
        let _ = std::fs::create_dir_all(t.join(n1).join("a"));
        let _ = std::fs::create_dir_all(t.join(n4).join("sub"));
        let _ = std::fs::create_dir_all(t.join("a").join(n4));
        for f in [t.join(n1).join(n2), t.join(n1).join("a").join(n3), t.join(n3), t.join(n4).join("x.txt"), t.join(n4).join("sub").join("y.txt"), t.join("a").join(n4).join("x.txt"), t.join("a").join("x.txt"), t.join("we\\ird.txt"), t.join("sp ace"), t.join("new\nline")] {
            let _ = std::fs::write(f, b"");
        }
        // reference: every entry beneath the base, from the file system itself
        fn all_entries(dir: &std::path::Path, base: &std::path::Path, out: &mut Vec<PathBuf>) {
            if let Ok(rd) = std::fs::read_dir(dir) {
                for e in rd.flatten() {
                    let p = e.path();
                    out.push(p.strip_prefix(base).unwrap().to_path_buf());
                    if e.file_type().map_or(false, |t| t.is_dir()) {
                        all_entries(&p, base, out);
                    }
                }
            }
        }
        let mut entries = vec![];
        all_entries(&t, &t, &mut entries);
        let mut walks = 0u64;
        for g in ["**", "*", "*/*", "*.txt", "*/*.txt", "*/x.txt", "*/*/*.txt", "a/*/x.txt", "caf*/*", "caf*/a/*", "d*/sub/*", "?/**", "[!a]*/*", "**/*.txt", "*/sub/*", "{a,d*}/**"] {
            let Ok(glob) = Glob::new(g) else { continue };
            let Some(got) = fswalk::collect_glob(glob.walk(t.clone()), 500) else { continue };
            walks += 1;
            let mut yielded: Vec<PathBuf> = got.iter().filter_map(|it| if let Got::Ok(e) = it { Some(e.rel.clone()) } else { None }).filter(|r| !r.as_os_str().is_empty()).collect();
            let mut expected: Vec<PathBuf> = entries.iter().filter(|r| glob.is_match(r.as_path())).cloned().collect();
            yielded.sort();
            expected.sort();
            if yielded != expected {
                rep.alarm(Alarm {
                    class: None,
                    key: format!("bytes02 {}", g),
                    msg: format!("walk of `{}` in a tree with non-UTF-8 and unusual names: yielded {:?}, but the entries whose relative path the glob matches are {:?}", g, yielded, expected),
                    case: json!({"kind": "bytes", "what": g}),
                });
            }
        }
        rep.add("non_utf8_walks", walks);
        let _ = std::fs::remove_dir_all(&dir);
    }
    if which == "C14" {
        // file names that are not valid UTF-8 (the candidate path is a lossy rendition; the
        // entry's path segments must still be slices of the real path)
        {
            use std::ffi::OsStr;
            use std::os::unix::ffi::OsStrExt;
            use wax::walk::PathExt;
            let dir = scratch.root.join("bytes");
            let _ = std::fs::remove_dir_all(&dir);
            let n1 = OsStr::from_bytes(b"caf\xE9");
            let n2 = OsStr::from_bytes(b"\xFF");
            let n3 = OsStr::from_bytes(b"a\xC0b.txt");
            let _ = std::fs::create_dir_all(dir.join("t").join(n1).join("a"));
            let _ = std::fs::write(dir.join("t").join(n1).join(n2), b"");
            let _ = std::fs::write(dir.join("t").join(n1).join("a").join(n3), b"");
            let _ = std::fs::write(dir.join("t").join(n3), b"");
            // valid UTF-8 names that are unusual on Unix: a backslash (an ordinary character
            // there), glob meta-characters, white space, a line feed, a non-ASCII letter
            for name in ["we\\ird.txt", "*", "[a]", "sp ace", "new\nline", "\u{e9}t\u{e9}", "{a,b}", "\\"] {
                let _ = std::fs::write(dir.join("t").join(name), b"");
            }
            let _ = std::fs::create_dir_all(dir.join("t").join("a\\b").join("c d"));
            let _ = std::fs::write(dir.join("t").join("a\\b").join("c d").join("e\\f.txt"), b"");
            let base = dir.join("t");
            let mut checked = 0u64;
            let mut judge = |e: &fswalk::GotEntry, what: &str, glob: Option<&Glob<'_>>| {
                checked += 1;
                let mut bad = vec![];
                if e.root.join(&e.rel) != e.path {
                    bad.push(format!("root {:?} joined with relative {:?} is not the path {:?}", e.root, e.rel, e.path));
                }
                if e.path.strip_prefix(&e.root).map_or(true, |r| r != e.rel) {
                    bad.push(format!("relative {:?} is not the path {:?} without the root {:?}", e.rel, e.path, e.root));
                }
                if e.depth != e.rel.components().count() {
                    bad.push(format!("depth {} but relative {:?}", e.depth, e.rel));
                }
                if e.root != base {
                    bad.push(format!("root {:?} is not the given directory", e.root));
                }
                if let (Some(g), Some(m)) = (glob, &e.matched) {
                    if !g.is_match(m.as_str()) {
                        bad.push(format!("matched text {:?} is not matched by the glob", m));
                    }
                    if *m != e.rel.to_string_lossy() {
                        bad.push(format!("matched text {:?} is not the (lossy) relative segment {:?}", m, e.rel));
                    }
                }
                if !bad.is_empty() {
                    rep.alarm(Alarm {
                        class: None,
                        key: format!("bytes {} {:?}", what, e.rel),
                        msg: format!("non-UTF-8 and unusual names, {}: entry {:?}: {}", what, e.path, bad.join("; ")),
                        case: json!({"kind": "bytes", "what": what}),
                    });
                }
            };
            for g in ["**", "*", "*/*", "**/a/*", "caf*/**", "**/*.txt", "a?b/**", "*/*/*", "?", "[!a]*"] {
                let glob = Glob::new(g).unwrap();
                if let Some(got) = fswalk::collect_glob(glob.walk(base.clone()), 200) {
                    for it in &got {
                        if let Got::Ok(e) = it {
                            judge(e, &format!("Glob({:?}).walk", g), Some(&glob));
                        }
                    }
                }
            }
            if let Some(got) = fswalk::collect(base.as_path().walk(), 200) {
                for it in &got {
                    if let Got::Ok(e) = it {
                        judge(e, "Path::walk", None);
                    }
                }
            }
            rep.add("non_utf8_entries_checked", checked);
            let _ = std::fs::remove_dir_all(&dir);
        }
        // entries of walks with depth and link behaviours over link worlds
        use crate::props_links::{link_worlds, DepthSpec, C15_GLOBS};
        use wax::walk::WalkBehavior;
        let lworlds = link_worlds(tier);
        let specs = [DepthSpec::Unbounded, DepthSpec::Bounded(Some(1), Some(2)), DepthSpec::Max(2), DepthSpec::FromMinOrUnbounded(2), DepthSpec::Bounded(Some(2), None)];
        rep.add("link_worlds", lworlds.len() as u64);
        lworlds.par_iter().for_each(|world| {
            let mut c = Counters::new();
            let place = fswalk::place(&scratch, world);
            for g in C15_GLOBS {
                let Ok(glob) = Glob::new(g) else { continue };
                for link in [LinkBehavior::ReadFile, LinkBehavior::ReadTarget] {
                    for spec in &specs {
                        let Some((depth, _, _)) = spec.resolve(&glob) else { continue };
                        let base = place.abs.clone();
                        let Some(got) = fswalk::collect_glob(glob.walk_with_behavior(base.clone(), WalkBehavior { depth, link }), 2000) else { continue };
                        bump(&mut c, "walks", 1);
                        for it in &got {
                            if let Got::Ok(e) = it {
                                bump(&mut c, "entries_checked", 1);
                                let bad = entry_equations(e, &glob, &base, false);
                                if !bad.is_empty() {
                                    rep.alarm(Alarm {
                                        class: None,
                                        key: format!("behav {} {} {} {:?} {:?}", world.describe(), g, link_name(link), spec, e.rel),
                                        msg: format!("entry {:?} of `{}` ({}, {}) in {}: {}", e.rel, g, link_name(link), spec.describe(), world.describe(), bad.join("; ")),
                                        case: json!({"kind": "depthwalk", "world": world_json(world), "glob": g, "link": link_name(link), "depth": {"k": "unbounded"}}),
                                    });
                                }
                            }
                        }
                    }
                }
            }
            drop(place);
            rep.merge(&c);
        });
    }
    let distinct = distinct_outcomes.lock().unwrap().len() as u64;
    let walks = rep.get("walks");
    let samples: Vec<Value> = plan.worlds.iter().rev().take(3).map(|w| json!({"world": w.describe(), "globs": plan.globs.iter().take(8).collect::<Vec<_>>() })).collect();
    drop(scratch);
    rep.finish(
        json!({
            "evaluations": walks,
            "distinct_nontrivial": distinct,
            "rule": format!("every world with <= {} entries over names {:?} (all child orders) x every built glob of size <= 3 over the fs alphabet x both link behaviours, plus base spellings and rooted / ./ ../ a/../ variants; walked for real on tmpfs. distinct_nontrivial = number of distinct observed outcomes ({})", tier.pick(3, 4), NAMES, if which == "C02" { "yielded multisets" } else { "(depth, relative path, rootedness) triples of checked entries" }),
            "samples": samples,
            "exhaustive": true,
            "states": rep.get("states"),
            "transitions": rep.get("transitions"),
            "traces_validated_against_impl": rep.get("prune_models"),
        }),
        vec![
            "walkdir and the kernel's tmpfs behave as documented; readdir order = reverse creation order (read back and counted in orders_realised)".into(),
            "is_match itself is trusted here (C01 decides it)".into(),
        ],
    )
}

pub fn replay_walk(case: &Value, which: &str) -> bool {
    let world = world_from_json(&case["world"]);
    let g = case["glob"].as_str().unwrap_or("");
    let variant = variant_from(case["variant"].as_str().unwrap_or("plain"));
    let sp = spelling_from(case["spelling"].as_str().unwrap_or("abs"));
    let link = link_from(case["link"].as_str().unwrap_or("ReadFile"));
    let scratch = Scratch::new();
    let place = fswalk::place(&scratch, &world);
    println!("world {} (readdir order honoured: {})", world.describe(), place.order_ok);
    let Some(res) = run_plain_walk(&place, &world, g, variant, sp, link) else {
        println!("variant not applicable");
        return false;
    };
    match res {
        Err(msg) => {
            println!("walk fails: {}", msg);
            true
        },
        Ok(o) => {
            println!("walk of `{}` from {:?} ({})", o.expr, o.base, link_name(link));
            println!("  yielded : {:?} (base itself: {}, errors: {})", o.yielded, o.base_yielded, o.errors);
            println!("  expected: {:?} (base allowed: {})", o.expected, o.base_allowed);
            if which == "C14" {
                let glob = Glob::new(&o.expr).unwrap();
                let mut bad_any = false;
                for it in &o.got {
                    if let Got::Ok(e) = it {
                        let bad = entry_equations(e, &glob, &o.base, variant == Variant::Rooted);
                        if !bad.is_empty() {
                            println!("  entry {:?}: {}", e.path, bad.join("; "));
                            bad_any = true;
                        }
                    }
                }
                bad_any
            }
            else {
                let prefix_missing = o.yielded.is_empty() && o.expected.is_empty();
                o.yielded != o.expected || (o.base_yielded && !o.base_allowed) || (o.errors > 0 && !prefix_missing)
            }
        },
    }
}

// ---------------------------------------------------------------------------------------------
// C02 (ii): prune safety as automaton inclusion, all canonical paths
// ---------------------------------------------------------------------------------------------

use refmodel::automata::{self, canon_init, canon_step, CanonState, Dfa};
use std::collections::HashMap;

#[derive(Clone, Copy, PartialEq, Eq, Hash)]
struct PruneState {
    complete: u32,
    idx: u8,
    comp: u32,
    failed: bool,
    canon: CanonState,
}

/// Explores complete-program DFA x (component index, component-program DFA state, failed bit)
/// over all canonical paths. Returns (states, transitions, first witness): a canonical path the
/// complete program accepts although one of its first k components fails its component program
/// or it has fewer than k components (k = number of component programs): the walker would prune
/// or skip it.
fn prune_safety(complete: &Dfa, comps: &[Dfa], alphabet: &[char]) -> (u64, u64, Option<String>) {
    let k = comps.len();
    let start_of = |i: usize| -> u32 { if i < k { comps[i].start().as_u32() } else { 0 } };
    let init = PruneState { complete: complete.start().as_u32(), idx: 0, comp: start_of(0), failed: false, canon: canon_init() };
    let mut index: HashMap<PruneState, u32> = HashMap::new();
    let mut states = vec![init];
    let mut parent: Vec<(u32, char)> = vec![(u32::MAX, '\0')];
    index.insert(init, 0);
    let mut transitions = 0u64;
    let mut witness = None;
    let sid = |x: u32| regex_automata::util::primitives::StateID::new_unchecked(x as usize);
    let mut head = 0;
    while head < states.len() {
        let s = states[head];
        // check
        if witness.is_none() && s.canon.is_canonical_end() && s.canon.comps > 0 && complete.accepting(sid(s.complete)) {
            let n = s.canon.comps as usize;
            let cur_ok = if (s.idx as usize) < k { comps[s.idx as usize].accepting(sid(s.comp)) } else { true };
            if s.failed || !cur_ok || n < k {
                // access string
                let mut rev = vec![];
                let mut i = head;
                while parent[i].0 != u32::MAX {
                    rev.push(parent[i].1);
                    i = parent[i].0 as usize;
                }
                witness = Some(rev.iter().rev().collect::<String>());
            }
        }
        for &ch in alphabet {
            let Some(canon) = canon_step(&s.canon, ch, (k + 2).min(250) as u8) else { continue };
            if canon.rooted {
                continue; // candidates of an unrooted glob are relative paths
            }
            transitions += 1;
            let mut n = PruneState { complete: complete.step(sid(s.complete), ch).as_u32(), idx: s.idx, comp: s.comp, failed: s.failed, canon };
            if ch == '/' {
                if s.canon.phase != 0 {
                    // end of a component
                    if (s.idx as usize) < k {
                        if !comps[s.idx as usize].accepting(sid(s.comp)) {
                            n.failed = true;
                        }
                        n.idx = s.idx + 1;
                        n.comp = start_of(n.idx as usize);
                    }
                }
            }
            else if (s.idx as usize) < k {
                n.comp = comps[s.idx as usize].step(sid(s.comp), ch).as_u32();
            }
            if !index.contains_key(&n) {
                if states.len() > 500_000 {
                    continue;
                }
                index.insert(n, states.len() as u32);
                states.push(n);
                parent.push((head as u32, ch));
            }
        }
        head += 1;
    }
    (states.len() as u64, transitions, witness)
}

/// Materialises a relative canonical path as a directory chain (last component a file) and walks
/// the glob: is the path yielded?
fn walked_for_real(scratch: &Scratch, g: &Glob<'_>, path: &str) -> Option<bool> {
    let comps: Vec<&str> = path.split('/').filter(|c| !c.is_empty()).collect();
    if comps.is_empty() || comps.len() > 5 || path.starts_with('/') || comps.iter().any(|c| c.contains('\0') || *c == ".." || c.len() > 100) {
        return None;
    }
    let mut node = FNode::file(comps[comps.len() - 1]);
    for c in comps[..comps.len() - 1].iter().rev() {
        node = FNode::dir(c, vec![node]);
    }
    let world = World::new(vec![node]);
    let place = fswalk::place(scratch, &world);
    let got = fswalk::collect_glob(g.walk(place.abs.clone()), 200)?;
    let want = place.abs.join(path);
    Some(got.iter().any(|it| matches!(it, Got::Ok(e) if e.path == want)))
}

pub fn c02_prune_safety(rep: &Report, tier: Tier, scratch: &Scratch) {
    use crate::space::{self, Expr, SpaceOpts};
    let mut opts = SpaceOpts::standard(tier);
    opts.subst_pairs = 0;
    opts.subst_single = tier.pick(2, 3);
    let n = space::for_each_expr(&opts, &|e: &Expr| {
        let mut c = Counters::new();
        let Some(g) = model::build_ok(&e.text) else { return };
        // anchor law (no walk: a rooted glob whose first component is variant would traverse the
        // machine's real root): the traversal root is the given directory joined, as paths join,
        // with the invariant prefix that `partition` reports - a rooted prefix replaces the
        // directory - and the pivot counts the prefix components that the join appended
        if let Ok((root, pivot)) = guard(|| g.verif_walk_anchor("/waxmc-base/x")) {
            bump(&mut c, "anchors_checked", 1);
            let prefix = g.clone().partition().0;
            let base = Path::new("/waxmc-base/x");
            // a glob that is rooted without an invariant prefix (rooted through a branch token)
            // replaces the given directory with the root, like every rooted glob
            let expected = if g.has_root().is_always() && prefix.as_os_str().is_empty() { PathBuf::from("/") } else { base.join(&prefix) };
            let mut bad = vec![];
            if root != expected {
                bad.push(format!("traversal root {:?}, expected {:?} (given directory joined with the invariant prefix {:?})", root, expected, prefix));
            }
            if g.has_root().is_always() && (!root.is_absolute() || root.starts_with(base)) {
                bad.push(format!("the glob is rooted but the traversal root {:?} is beneath the given directory", root));
            }
            if !prefix.is_absolute() && !g.has_root().is_always() {
                let appended = expected.components().count().saturating_sub(base.components().count());
                if pivot != appended {
                    bad.push(format!("pivot {} but the join appended {} component(s)", pivot, appended));
                }
            }
            if !bad.is_empty() {
                // recorded finding: a glob rooted through a branch token has no invariant prefix
                // (or only `/` with the whole expression left over), so the walk starts in the
                // given directory; identified by the first token being a rooted branch and the
                // traversal root being exactly the join of directory and reported prefix
                let through_branch = crate::props_partition::first_token_is_rooted_repetition(&e.ast)
                    && g.has_root().is_always()
                    && prefix.as_os_str().is_empty()
                    && root == expected
                    && bad.len() == 1;
                rep.alarm(Alarm {
                    class: if through_branch { Some("walk-rooted-through-branch".to_string()) } else { None },
                    key: format!("anchor {}", e.text),
                    msg: format!("`{}` walked in /waxmc-base/x: {}", e.text, bad.join("; ")),
                    case: json!({"kind": "anchor", "expression": e.text}),
                });
            }
        }
        if !g.has_root().is_never() {
            // rooted globs: the recorded misalignment is in the walker, not in the programs
            bump(&mut c, "prune_rooted_skipped", 1);
            rep.merge(&c);
            return;
        }
        let texts = match guard(|| g.verif_walk_component_texts()) {
            Ok(t) => t,
            Err(_) => return,
        };
        let Ok(complete) = model::dfa_of_glob(&g) else { return };
        let comps: Vec<Dfa> = texts.iter().filter_map(|t| Dfa::new_search(t).ok()).collect();
        if comps.len() != texts.len() {
            return;
        }
        let mut pats: Vec<&str> = vec![complete.pattern.as_str()];
        pats.extend(texts.iter().map(|t| t.as_str()));
        let Ok(alphabet) = automata::alphabet(&pats, &[]) else { return };
        let (states, transitions, witness) = prune_safety(&complete, &comps, &alphabet);
        bump(&mut c, "states", states);
        bump(&mut c, "transitions", transitions);
        bump(&mut c, "prune_models", 1);
        if !comps.is_empty() {
            bump(&mut c, "prune_models_with_component_programs", 1);
        }
        if let Some(p) = witness {
            // bind to the code: the path must really match, and the real walk must really lose it
            if !g.is_match(p.as_str()) {
                bump(&mut c, "unconfirmed_model_witnesses", 1);
            }
            else {
                match walked_for_real(scratch, &g, &p) {
                    Some(true) => bump(&mut c, "prune_witness_yielded_by_real_walk", 1),
                    Some(false) => rep.alarm(Alarm {
                        class: None,
                        key: format!("prune {}", e.text),
                        msg: format!(
                            "`{}` matches {:?} but its component programs {:?} prune it (confirmed: a real walk of that directory chain does not yield it)",
                            e.text, p, texts
                        ),
                        case: json!({"kind": "prune", "expression": e.text, "path": p}),
                    }),
                    None => rep.alarm(Alarm {
                        class: None,
                        key: format!("prune {}", e.text),
                        msg: format!("`{}` matches {:?} but its component programs {:?} would prune it", e.text, p, texts),
                        case: json!({"kind": "prune", "expression": e.text, "path": p}),
                    }),
                }
            }
        }
        else if !comps.is_empty() && e.text.len() <= 4 {
            rep.sample(json!({"expression": e.text, "component_programs": texts, "prune_product_states": states}));
        }
        // binding of the component programs: a one-component directory per program index is
        // exercised by the real walks of part (i)
        rep.merge(&c);
    });
    rep.add("prune_programs_enumerated", n);
}

pub fn replay_anchor(case: &Value) -> bool {
    let e = case["expression"].as_str().unwrap_or("");
    let g = Glob::new(e).unwrap();
    let (root, pivot) = g.verif_walk_anchor("/waxmc-base/x");
    let prefix = g.clone().partition().0;
    let expected = if g.has_root().is_always() && prefix.as_os_str().is_empty() { PathBuf::from("/") } else { Path::new("/waxmc-base/x").join(&prefix) };
    println!("`{}`: invariant prefix {:?}; walked in /waxmc-base/x the traversal root is {:?} (pivot {}), expected {:?}", e, prefix, root, pivot, expected);
    root != expected
}

pub fn replay_prune(case: &Value) -> bool {
    let e = case["expression"].as_str().unwrap_or("");
    let p = case["path"].as_str().unwrap_or("");
    let g = Glob::new(e).unwrap();
    let scratch = Scratch::new();
    println!("`{}`: component programs {:?}; is_match({:?}) = {}", e, g.verif_walk_component_texts(), p, g.is_match(p));
    let r = walked_for_real(&scratch, &g, p);
    println!("  real walk of the directory chain yields it: {:?}", r);
    g.is_match(p) && r != Some(true)
}
