//! Shared infrastructure: panic capture, tiers, alarms, known findings, evidence, replay files.

use serde_json::{json, Value};
use std::collections::BTreeMap;
use std::panic::{catch_unwind, AssertUnwindSafe};
use std::path::PathBuf;
use std::sync::Mutex;
use std::time::Instant;

/// Where evidence and replay files are written: `<verif>/evidence`, unless a run against a
/// deliberately broken tree (tools/run_mutants.py) redirects it so that the evidence of the
/// unchanged tree is not overwritten.
pub fn evidence_dir() -> PathBuf {
    std::env::var_os("WAXMC_EVIDENCE_DIR").map(PathBuf::from).unwrap_or_else(|| verif_dir().join("evidence"))
}

/// The directory the machinery lives in: the driver passes its own location (so that a snapshot of
/// /verif run elsewhere reads and writes its own files); `/verif` otherwise.
pub fn verif_dir() -> PathBuf {
    std::env::var_os("WAXMC_VERIF_DIR").map(PathBuf::from).unwrap_or_else(|| PathBuf::from("/verif"))
}

#[derive(Clone, Copy, PartialEq, Eq, Debug)]
pub enum Tier {
    Quick,
    Thorough,
}

impl Tier {
    pub fn name(&self) -> &'static str {
        match self {
            Tier::Quick => "quick",
            Tier::Thorough => "thorough",
        }
    }
    pub fn pick<T>(&self, quick: T, thorough: T) -> T {
        match self {
            Tier::Quick => quick,
            Tier::Thorough => thorough,
        }
    }
}

pub fn silence_panics() {
    if std::env::var("WAXMC_SHOW_PANICS").is_ok() {
        return;
    }
    std::panic::set_hook(Box::new(|_| {}));
}

/// Runs `f`, turning a panic into `Err(message)`. Panics in wax are data, not crashes.
pub fn guard<T>(f: impl FnOnce() -> T) -> Result<T, String> {
    catch_unwind(AssertUnwindSafe(f)).map_err(|e| {
        if let Some(s) = e.downcast_ref::<&str>() {
            s.to_string()
        }
        else if let Some(s) = e.downcast_ref::<String>() {
            s.clone()
        }
        else {
            "panic".to_string()
        }
    })
}

#[derive(Clone, Debug)]
pub struct Alarm {
    /// candidate known-finding class (decided by a predicate in the engine), if any
    pub class: Option<String>,
    /// sort / dedup key
    pub key: String,
    pub msg: String,
    /// the replayable case
    pub case: Value,
}

#[derive(Clone, Debug)]
pub struct Finding {
    pub property: String,
    pub class: String,
    pub status: String,
    pub what: String,
}

pub fn load_findings() -> Vec<Finding> {
    let path = verif_dir().join("known_findings.json");
    let Ok(text) = std::fs::read_to_string(&path) else { return vec![] };
    let v: Value = match serde_json::from_str(&text) {
        Ok(v) => v,
        Err(e) => {
            eprintln!("machinery: known_findings.json does not parse: {}", e);
            std::process::exit(2);
        },
    };
    let mut out = vec![];
    for f in v["findings"].as_array().cloned().unwrap_or_default() {
        let props: Vec<String> = match &f["property"] {
            Value::String(s) => vec![s.clone()],
            Value::Array(a) => a.iter().filter_map(|x| x.as_str().map(String::from)).collect(),
            _ => vec![],
        };
        for p in props {
            out.push(Finding {
                property: p,
                class: f["class"].as_str().unwrap_or("").to_string(),
                status: f["status"].as_str().unwrap_or("open").to_string(),
                what: f["what"].as_str().unwrap_or("").to_string(),
            });
        }
    }
    out
}

pub struct Report {
    pub prop: &'static str,
    pub tier: Tier,
    pub seed: u64,
    pub level: &'static str,
    pub start: Instant,
    pub alarms: Mutex<Vec<Alarm>>,
    pub counters: Mutex<BTreeMap<String, u64>>,
    pub samples: Mutex<Vec<Value>>,
    pub notes: Mutex<Vec<String>>,
}

impl Report {
    pub fn new(prop: &'static str, tier: Tier, level: &'static str) -> Report {
        let seed = std::env::var("VERIF_SEED").ok().and_then(|s| s.parse().ok()).unwrap_or(0);
        Report {
            prop,
            tier,
            seed,
            level,
            start: Instant::now(),
            alarms: Mutex::new(vec![]),
            counters: Mutex::new(BTreeMap::new()),
            samples: Mutex::new(vec![]),
            notes: Mutex::new(vec![]),
        }
    }

    /// Records an alarm. To bound memory only the first `ALARM_CAP` alarms of each class are
    /// kept (all of them are counted).
    pub fn alarm(&self, a: Alarm) {
        const ALARM_CAP: u64 = 5000;
        let class = a.class.clone().unwrap_or_else(|| "<unclassified>".to_string());
        let n = {
            let mut c = self.counters.lock().unwrap();
            let e = c.entry(format!("alarms_raised[{}]", class)).or_insert(0);
            *e += 1;
            *e
        };
        if n <= ALARM_CAP {
            self.alarms.lock().unwrap().push(a);
        }
    }

    pub fn add(&self, key: &str, n: u64) {
        *self.counters.lock().unwrap().entry(key.to_string()).or_insert(0) += n;
    }

    pub fn merge(&self, local: &BTreeMap<&'static str, u64>) {
        let mut c = self.counters.lock().unwrap();
        for (k, v) in local {
            *c.entry(k.to_string()).or_insert(0) += *v;
        }
    }

    pub fn get(&self, key: &str) -> u64 {
        *self.counters.lock().unwrap().get(key).unwrap_or(&0)
    }

    pub fn sample(&self, v: Value) {
        let mut s = self.samples.lock().unwrap();
        if s.len() < 12 {
            s.push(v);
        }
    }

    pub fn note(&self, s: String) {
        self.notes.lock().unwrap().push(s);
    }

    /// Writes evidence, prints KNOWN-FINDING / VIOLATION lines and returns the exit code.
    pub fn finish(&self, mut coverage: Value, assumptions: Vec<String>) -> i32 {
        let findings = load_findings();
        let open: Vec<&Finding> =
            findings.iter().filter(|f| f.property == self.prop && f.status == "open").collect();
        let mut alarms = self.alarms.lock().unwrap().clone();
        alarms.sort_by(|a, b| (a.key.len(), &a.key).cmp(&(b.key.len(), &b.key)));
        alarms.dedup_by(|a, b| a.key == b.key);
        if let Ok(dump) = std::env::var("WAXMC_DUMP") {
            let mut text = String::new();
            for a in &alarms {
                text.push_str(&serde_json::to_string(&json!({"class": a.class, "key": a.key, "msg": a.msg})).unwrap());
                text.push('\n');
            }
            let _ = std::fs::write(dump, text);
        }
        let mut known: BTreeMap<String, (u64, String)> = BTreeMap::new();
        let mut violations: Vec<&Alarm> = vec![];
        for a in &alarms {
            match &a.class {
                Some(c) if open.iter().any(|f| &f.class == c) => {
                    let e = known.entry(c.clone()).or_insert((0, a.msg.clone()));
                    e.0 += 1;
                },
                _ => violations.push(a),
            }
        }
        let raised = |class: &str| -> u64 { *self.counters.lock().unwrap().get(&format!("alarms_raised[{}]", class)).unwrap_or(&0) };
        for (class, (n, example)) in &known {
            let what = open.iter().find(|f| &f.class == class).map(|f| f.what.clone()).unwrap_or_default();
            println!(
                "KNOWN-FINDING: property={} class={} {} [{} case(s) in this run; e.g. {}]",
                self.prop, class, what, raised(class).max(*n), example
            );
        }
        let replay_dir = evidence_dir().join("replays");
        let _ = std::fs::create_dir_all(&replay_dir);
        // remove stale replay files of this property
        if let Ok(rd) = std::fs::read_dir(&replay_dir) {
            for e in rd.flatten() {
                let name = e.file_name().to_string_lossy().to_string();
                if name.starts_with(&format!("{}-", self.prop)) {
                    let _ = std::fs::remove_file(e.path());
                }
            }
        }
        let mut shown = 0;
        for (i, v) in violations.iter().enumerate() {
            if i >= 25 {
                break;
            }
            let path = replay_dir.join(format!("{}-{}.json", self.prop, i + 1));
            let mut case = v.case.clone();
            case["property"] = json!(self.prop);
            case["message"] = json!(v.msg);
            if let Some(c) = &v.class {
                case["class"] = json!(c);
            }
            let _ = std::fs::write(&path, serde_json::to_string_pretty(&case).unwrap());
            println!("VIOLATION property={} replay={}", self.prop, path.display());
            println!("  {}", v.msg);
            shown += 1;
        }
        if violations.len() > shown {
            println!("  ... and {} more violating cases", violations.len() - shown);
        }
        let wall = self.start.elapsed().as_secs_f64();
        let counters = self.counters.lock().unwrap().clone();
        if let Value::Object(map) = &mut coverage {
            let mut cmap = serde_json::Map::new();
            for (k, v) in &counters {
                cmap.insert(k.clone(), json!(v));
            }
            map.insert("counters".into(), Value::Object(cmap));
            let samples = self.samples.lock().unwrap().clone();
            let missing = match map.get("samples") {
                Some(Value::Array(a)) => a.is_empty(),
                _ => true,
            };
            if missing {
                if samples.is_empty() {
                    eprintln!("MACHINERY-FAILURE: the check recorded no sample of what it explored");
                    return 2;
                }
                map.insert("samples".into(), Value::Array(samples));
            }
            let mut kf = serde_json::Map::new();
            for (class, (n, example)) in &known {
                kf.insert(class.clone(), json!({"cases": n, "example": example}));
            }
            map.insert("known_findings_observed".into(), Value::Object(kf));
            let notes = self.notes.lock().unwrap().clone();
            if !notes.is_empty() {
                map.insert("notes".into(), json!(notes));
            }
        }
        let ev = json!({
            "property_id": self.prop,
            "tier": self.tier.name(),
            "seed": self.seed,
            "level": self.level,
            "coverage": coverage,
            "assumptions": assumptions,
            "wall_s": wall,
            "violations": violations.len(),
        });
        let evpath = evidence_dir().join(format!("{}.json", self.prop));
        if let Err(e) = std::fs::write(&evpath, serde_json::to_string_pretty(&ev).unwrap()) {
            eprintln!("machinery: cannot write evidence {}: {}", evpath.display(), e);
            return 2;
        }
        println!(
            "{} {}: {} violation(s), {} known-finding class(es), {:.1}s",
            self.prop,
            self.tier.name(),
            violations.len(),
            known.len(),
            wall
        );
        if violations.is_empty() {
            0
        }
        else {
            1
        }
    }
}

pub fn machinery_failure(msg: &str) -> ! {
    eprintln!("MACHINERY-FAILURE: {}", msg);
    std::process::exit(2);
}
