//! C08: partitioning preserves meaning. C18: escaping yields a glob matching exactly the text.

use rayon::prelude::*;
use refmodel::automata::{self, Dfa};
use refmodel::lang::hex_str;
use refmodel::syntax;
use serde_json::json;
use std::path::{Component, Path, PathBuf};
use wax::query::TextVariance;
use wax::{Glob, Program};

use crate::common::{guard, Alarm, Report, Tier};
use crate::model::{self, bump, Counters};
use crate::props_query::{class_lists_separator, finish_mc, for_each_glob, CanonMon, TextMon};
use crate::space::SpaceOpts;

fn norm_prefix(prefix: &Path) -> Option<String> {
    let mut out = String::new();
    let mut first = true;
    for c in prefix.components() {
        match c {
            Component::RootDir => {
                out.push('/');
                continue;
            },
            Component::Prefix(_) => return None,
            Component::CurDir => {
                if !first && !out.ends_with('/') {
                    out.push('/');
                }
                out.push('.');
            },
            Component::ParentDir => {
                if !first && !out.ends_with('/') {
                    out.push('/');
                }
                out.push_str("..");
            },
            Component::Normal(s) => {
                if !first && !out.ends_with('/') {
                    out.push('/');
                }
                out.push_str(s.to_str()?);
            },
        }
        first = false;
    }
    Some(out)
}

/// body of an implementation pattern `(?s)^...$`
fn body(pattern: &str) -> Option<&str> {
    let i = pattern.find('^')?;
    let j = pattern.rfind('$')?;
    if j <= i {
        return None;
    }
    Some(&pattern[i + 1..j])
}

/// The right-hand side of the partition law as a regular expression over canonical paths.
fn rhs_regex(pnorm: &str, postfix: Option<(&str, bool)>) -> Option<String> {
    let p = hex_str(pnorm);
    Some(match postfix {
        None => format!("(?s)^{}$", p),
        Some((pat, eps)) => {
            let b = body(pat)?;
            if pnorm.is_empty() {
                format!("(?s)^(?:{})$", b)
            }
            else if pnorm == "/" {
                format!("(?s)^/(?:{})$", b)
            }
            else if eps {
                format!("(?s)^{}(?:/(?:{}))?$", p, b)
            }
            else {
                format!("(?s)^{}/(?:{})$", p, b)
            }
        },
    })
}

fn real_rhs(prefix: &Path, postfix: Option<&Glob<'_>>, p: &str) -> bool {
    match Path::new(p).strip_prefix(prefix) {
        Ok(rem) => match postfix {
            Some(g) => g.is_match(rem),
            None => rem.as_os_str().is_empty(),
        },
        Err(_) => false,
    }
}

fn leading_flag_before_removed(ast: &syntax::Seq) -> bool {
    // a flag group (at any nesting depth) lies textually before a top-level separator or tree
    // wildcard: it is inside or before text that partitioning may remove
    fn has_flag(n: &syntax::Node) -> bool {
        match &n.kind {
            syntax::Kind::Flag(_) => true,
            syntax::Kind::Alt(bs) => bs.iter().any(|b| b.iter().any(has_flag)),
            syntax::Kind::Rep { body, .. } => body.iter().any(has_flag),
            _ => false,
        }
    }
    let mut seen_flag = false;
    for n in ast {
        if has_flag(n) {
            seen_flag = true;
        }
        if n.is_boundary() && seen_flag {
            return true;
        }
    }
    false
}

pub fn first_token_is_rooted_repetition(ast: &syntax::Seq) -> bool {
    ast.iter().find(|n| !n.is_flag()).map_or(false, |n| n.is_branch())
}

pub fn c08(tier: Tier) -> i32 {
    let rep = Report::new("C08", tier, "model_checking");
    let opts = SpaceOpts::standard(tier);
    for_each_glob(&rep, &opts, &|e, g, c| {
        let parts = guard(|| g.clone().partition());
        let (prefix, postfix) = match parts {
            Ok(p) => p,
            Err(msg) => {
                rep.alarm(Alarm {
                    class: None,
                    key: format!("panic {}", e.text),
                    msg: format!("`{}`.partition() panics: {}", e.text, msg),
                    case: json!({"kind": "partition", "expression": e.text, "check": "panic"}),
                });
                return;
            },
        };
        bump(c, "partitioned", 1);
        if e.text.len() <= 3 || e.pass == "corpus" {
            rep.sample(json!({"expression": e.text, "prefix": prefix.to_string_lossy(), "postfix": postfix.as_ref().map(|p| p.to_string())}));
        }
        if !prefix.as_os_str().is_empty() {
            bump(c, "with_nonempty_prefix", 1);
        }
        let case = |check: &str, path: Option<&str>| json!({"kind": "partition", "expression": e.text, "check": check, "path": path});
        // the recorded finding is about globs ROOTED through a branch: prefix `/`, postfix = the
        // whole expression
        let rooted_rep = first_token_is_rooted_repetition(&e.ast)
            && g.has_root().is_always()
            && (prefix == Path::new("/") || prefix.as_os_str().is_empty())
            && postfix.as_ref().map_or(false, |p| p.to_string() == e.text);
        let flagged = leading_flag_before_removed(&e.ast);
        if let Some(post) = &postfix {
            // never rooted
            if !post.has_root().is_never() {
                rep.alarm(Alarm {
                    class: if rooted_rep { Some("partition-rooted-branch".into()) } else { None },
                    key: format!("root {}", e.text),
                    msg: format!("`{}`: postfix `{}` has_root() = {:?}", e.text, post, post.has_root()),
                    case: case("postfix-root", None),
                });
            }
            // idempotent
            let ptext = post.to_string();
            match guard(|| post.clone().partition()) {
                Ok((p2, Some(post2))) => {
                    if !p2.as_os_str().is_empty() || post2.to_string() != ptext {
                        rep.alarm(Alarm {
                            class: if rooted_rep { Some("partition-rooted-branch".into()) } else { None },
                            key: format!("idem {}", e.text),
                            msg: format!(
                                "`{}`: re-partitioning postfix `{}` gives ({:?}, `{}`)",
                                e.text, ptext, p2, post2
                            ),
                            case: case("idempotent", None),
                        });
                    }
                },
                Ok((p2, None)) => {
                    rep.alarm(Alarm {
                        class: None,
                        key: format!("idem {}", e.text),
                        msg: format!("`{}`: re-partitioning postfix `{}` gives ({:?}, None)", e.text, ptext, p2),
                        case: case("idempotent", None),
                    });
                },
                Err(msg) => rep.alarm(Alarm {
                    class: None,
                    key: format!("idem {}", e.text),
                    msg: format!("`{}`: re-partitioning postfix panics: {}", e.text, msg),
                    case: case("idempotent", None),
                }),
            }
            // suffix of the original text
            if !e.text.ends_with(&ptext) {
                rep.alarm(Alarm {
                    class: None,
                    key: format!("suffix {}", e.text),
                    msg: format!("`{}`: postfix displays as `{}`, which is not a suffix", e.text, ptext),
                    case: case("suffix", None),
                });
            }
            // rebuilds into an equivalent glob with the same capture spans
            match model::build(&ptext) {
                model::Built::Ok(rebuilt) => {
                    if rebuilt.verif_program_text() != post.verif_program_text() {
                        // equal text implies equal language; otherwise compare languages
                        let same = match (model::dfa_of_glob(&rebuilt), model::dfa_of_glob(post)) {
                            (Ok(a), Ok(b)) => {
                                let al = automata::alphabet(&[a.pattern.as_str(), b.pattern.as_str()], &[]).unwrap_or_default();
                                let ex = model::explore_counted(c, &[&a, &b], &automata::NoMonitor, &al);
                                let mut w = None;
                                for (i, (t, _)) in ex.states.iter().enumerate() {
                                    if automata::acc(&[&a, &b], t, 0) != automata::acc(&[&a, &b], t, 1) {
                                        w = Some(ex.access(i));
                                        break;
                                    }
                                }
                                w
                            },
                            _ => None,
                        };
                        if let Some(w) = same {
                            if rebuilt.is_match(w.as_str()) != post.is_match(w.as_str()) {
                                rep.alarm(Alarm {
                                    class: if flagged { Some("partition-postfix-text-loses-flags".into()) } else { None },
                                    key: format!("rebuild {}", e.text),
                                    msg: format!(
                                        "`{}`: postfix `{}` rebuilt from its text differs on {:?}: postfix={} rebuilt={}",
                                        e.text, ptext, w, post.is_match(w.as_str()), rebuilt.is_match(w.as_str())
                                    ),
                                    case: case("rebuild", Some(&w)),
                                });
                            }
                        }
                    }
                    let a: Vec<_> = rebuilt.captures().map(|t| (t.index(), t.span())).collect();
                    let b: Vec<_> = post.captures().map(|t| (t.index(), t.span())).collect();
                    if a != b {
                        rep.alarm(Alarm {
                            class: None,
                            key: format!("spans {}", e.text),
                            msg: format!(
                                "`{}`: postfix `{}` capture spans {:?} differ from those of the rebuilt glob {:?}",
                                e.text, ptext, b, a
                            ),
                            case: case("spans", None),
                        });
                    }
                },
                _ => {
                    rep.alarm(Alarm {
                        class: if flagged { Some("partition-postfix-text-loses-flags".into()) } else { None },
                        key: format!("rebuild {}", e.text),
                        msg: format!("`{}`: postfix text `{}` does not build", e.text, ptext),
                        case: case("rebuild", None),
                    });
                },
            }
        }
        // the partition law on all canonical paths
        let lists_sep = class_lists_separator(&e.ast);
        // a prefix with `.` / `..` components is interpreted natively (`/./x` strips like `/x`)
        // while canonical paths never contain `.`: outside the law's domain (has_semantic_literals
        // exists to warn about exactly this)
        if prefix.to_str().map_or(true, |t| t.split('/').any(|c| c == "." || c == "..")) {
            bump(c, "law_excluded_semantic_prefix", 1);
            return;
        }
        let Some(pnorm) = norm_prefix(&prefix) else { return };
        let Ok(orig) = model::dfa_of_glob(g) else { return };
        let eps = postfix.as_ref().map(|p| p.is_match(""));
        let post_pat = postfix.as_ref().map(|p| p.verif_program_text().to_string());
        let Some(rhs) = rhs_regex(&pnorm, post_pat.as_deref().map(|p| (p, eps.unwrap_or(false)))) else { return };
        let Ok(rhs_dfa) = Dfa::new(&rhs) else {
            bump(c, "rhs_dfa_failed", 1);
            return;
        };
        let extra: Vec<char> = pnorm.chars().collect();
        let Ok(alphabet) = automata::alphabet(&[orig.pattern.as_str(), rhs.as_str()], &extra) else { return };
        let dfas = [&orig, &rhs_dfa];
        let ex = model::explore_counted(c, &dfas, &CanonMon { sat: 3 }, &alphabet);
        let strings = model::access_strings(&ex);
        bump(c, "laws_checked", 1);
        // every disagreeing canonical state is classified (not only the first one): a witness
        // that no recorded finding explains is reported even if a shorter one is explained
        let mut reported: std::collections::BTreeSet<Option<String>> = std::collections::BTreeSet::new();
        let mut d1_dfas: Option<Option<(Dfa, Dfa)>> = None;
        let mut mirror_lhs: Option<Option<Dfa>> = None;
        let mut mirror_rhs: Option<Option<Dfa>> = None;
        let mut disagreements = 0u32;
        // all explored transitions: the BFS tree (one per state) and the cross edges; a cross edge
        // is judged only when a real answer differs from its automaton's
        let mut buffer = String::new();
        let edges = (0..ex.states.len()).map(|i| (u32::MAX, '\0', i, false)).chain(ex.cross.iter().map(|(from, ch, to)| (*from, *ch, *to as usize, true)));
        for (from, ch, to, is_cross) in edges {
            let is_cross = &is_cross;
            let (t, cs) = &ex.states[to];
            if !cs.is_canonical_end() {
                continue;
            }
            let p: &str = if *is_cross {
                buffer.clear();
                buffer.push_str(strings[from as usize].as_str());
                buffer.push(ch);
                buffer.as_str()
            }
            else {
                strings[to].as_str()
            };
            let lhs_model = automata::acc(&dfas, t, 0);
            let rhs_model = automata::acc(&dfas, t, 1);
            let lhs_real = g.is_match(p);
            if *is_cross && lhs_real == lhs_model {
                bump(c, "traces_validated_against_impl", 1);
                continue;
            }
            let rhs_real = real_rhs(&prefix, postfix.as_ref(), p);
            bump(c, "traces_validated_against_impl", 2);
            if lhs_real != lhs_model {
                bump(c, "binding_mismatches", 1);
            }
            if rhs_real != rhs_model {
                bump(c, "rhs_model_mismatches", 1);
                rep.note(format!("C08 rhs model mismatch `{}` path {:?}: model {} real {} (rhs {})", e.text, p, rhs_model, rhs_real, rhs));
            }
            if lhs_real != rhs_real && disagreements < 64 {
                disagreements += 1;
                // classify
                let stripped_empty = Path::new(p).strip_prefix(&prefix).map_or(false, |r| r.as_os_str().is_empty());
                let sole_rooted_tree = {
                    let toks: Vec<_> = e.ast.iter().filter(|n| !n.is_flag()).collect();
                    toks.len() == 1 && matches!(toks[0].kind, syntax::Kind::Tree { lead: true, .. })
                };
                // D1: attributed only if the reference with exactly that deviation predicts
                // the implementation's answer and the plain reference does not
                let d1 = {
                    let dfas = d1_dfas.get_or_insert_with(|| {
                        let without = refmodel::lang::reference(&e.ast, &refmodel::lang::Deviations { d4: true, ..Default::default() });
                        let with = refmodel::lang::reference(&e.ast, &refmodel::lang::Deviations { d1: true, d4: true, ..Default::default() });
                        match (without, with) {
                            (refmodel::lang::Spec::Specified(a), refmodel::lang::Spec::Specified(b)) => {
                                match (Dfa::new(&a.regex), Dfa::new(&b.regex)) {
                                    (Ok(a), Ok(b)) => Some((a, b)),
                                    _ => None,
                                }
                            },
                            _ => None,
                        }
                    });
                    dfas.as_ref().map_or(false, |(a, b)| a.accepts(p) != lhs_real && b.accepts(p) == lhs_real)
                };
                // D4: the position a nested tree wildcard is encoded for changes when the prefix
                // tokens are removed; attributed only if the encoder's mirror predicts both sides
                let d4 = refmodel::astops::nested_tree(&e.ast, false) && {
                    let ml = mirror_lhs.get_or_insert_with(|| Dfa::new(&refmodel::lang::mirror_regex(&e.ast)).ok());
                    let lhs_pred = ml.as_ref().map_or(false, |d| d.accepts(p) == lhs_real);
                    let rhs_pred = match (&postfix, Path::new(p).strip_prefix(&prefix)) {
                        (Some(post), Ok(rem)) => {
                            let rem = rem.to_string_lossy().to_string();
                            let mr = mirror_rhs.get_or_insert_with(|| {
                                syntax::parse(&post.to_string()).ok().and_then(|a| Dfa::new(&refmodel::lang::mirror_regex(&a)).ok())
                            });
                            mr.as_ref().map_or(false, |d| d.accepts(&rem) == post.is_match(rem.as_str()))
                        },
                        _ => false,
                    };
                    lhs_pred && rhs_pred
                };
                let class = if d1 {
                    Some("rooted-first-tree-optional-separator".to_string())
                }
                else if d4 && !rooted_rep {
                    Some("nested-tree-position".to_string())
                }
                else if rooted_rep {
                    Some("partition-rooted-branch".to_string())
                }
                else if lists_sep {
                    Some("separator-in-class-is-invariant-text".to_string())
                }
                else if sole_rooted_tree && !p.starts_with('/') {
                    Some("sole-rooted-tree-matches-relative".to_string())
                }
                else if stripped_empty {
                    Some("partition-empty-remainder".to_string())
                }
                else {
                    None
                };
                if !reported.insert(class.clone()) {
                    continue;
                }
                rep.alarm(Alarm {
                    class: class.clone(),
                    key: format!("law {} {:?}", e.text, class),
                    msg: format!(
                        "`{}` = ({:?}, {:?}): path {:?}: original matches = {}, prefix stripped and postfix matches = {}",
                        e.text,
                        prefix,
                        postfix.as_ref().map(|p| p.to_string()),
                        p,
                        lhs_real,
                        rhs_real
                    ),
                    case: case("law", Some(p)),
                });
            }
        }
    });
    let code = finish_mc(&rep, &opts, "every built expression: partition; all reachable canonical states of DFA(original) x DFA(prefix . postfix) with every canonical state replayed through Path::strip_prefix + the real postfix; plus never-rooted, idempotence, suffix text, rebuild equivalence (DFA product) and capture spans");
    code
}

pub fn replay_partition(case: &serde_json::Value) -> bool {
    let e = case["expression"].as_str().unwrap();
    let check = case["check"].as_str().unwrap();
    let g = Glob::new(e).unwrap();
    let (prefix, postfix) = g.clone().partition();
    println!("`{}`.partition() = ({:?}, {:?})", e, prefix, postfix.as_ref().map(|p| p.to_string()));
    match check {
        "law" => {
            let p = case["path"].as_str().unwrap();
            let lhs = g.is_match(p);
            let rhs = real_rhs(&prefix, postfix.as_ref(), p);
            println!("  original.is_match({:?}) = {}; strip_prefix + postfix = {}; expected equal", p, lhs, rhs);
            lhs != rhs
        },
        "postfix-root" => {
            let r = postfix.as_ref().map(|p| p.has_root());
            println!("  postfix.has_root() = {:?}; expected Never", r);
            r.map_or(false, |r| !r.is_never())
        },
        "idempotent" => {
            let Some(post) = postfix else { return false };
            let t = post.to_string();
            let (p2, post2) = post.partition();
            println!("  postfix.partition() = ({:?}, {:?}); expected (\"\", {:?})", p2, post2.as_ref().map(|p| p.to_string()), t);
            !p2.as_os_str().is_empty() || post2.map_or(true, |p| p.to_string() != t)
        },
        "suffix" => {
            let t = postfix.map(|p| p.to_string()).unwrap_or_default();
            println!("  postfix text `{}`; expected a suffix of `{}`", t, e);
            !e.ends_with(&t)
        },
        "rebuild" => {
            let Some(post) = postfix else { return false };
            let t = post.to_string();
            match Glob::new(&t) {
                Err(err) => {
                    println!("  postfix text `{}` does not build: {}", t, err);
                    true
                },
                Ok(r) => match case["path"].as_str() {
                    Some(p) => {
                        println!("  postfix.is_match({:?}) = {}; rebuilt.is_match = {}", p, post.is_match(p), r.is_match(p));
                        post.is_match(p) != r.is_match(p)
                    },
                    None => false,
                },
            }
        },
        "spans" => {
            let Some(post) = postfix else { return false };
            let t = post.to_string();
            let r = Glob::new(&t).unwrap();
            let a: Vec<_> = r.captures().map(|t| (t.index(), t.span())).collect();
            let b: Vec<_> = post.captures().map(|t| (t.index(), t.span())).collect();
            println!("  postfix spans {:?}; rebuilt spans {:?}", b, a);
            a != b
        },
        "panic" => guard(|| Glob::new(e).unwrap().partition()).is_err(),
        _ => false,
    }
}

// ---------------------------------------------------------------------------------------------
// C18
// ---------------------------------------------------------------------------------------------

fn c18_check(rep: &Report, c: &mut Counters, s: &str, model_check: bool) {
    // preconditions: no backslash, no two adjacent separators, below the size limit
    if s.contains('\\') || s.contains("//") || s.len() >= 0x10000 {
        bump(c, "precondition_excluded", 1);
        return;
    }
    bump(c, "strings", 1);
    let escaped = wax::escape(s);
    // long strings are shown abbreviated in messages (the replay file holds them in full)
    let short_s: String = if s.chars().count() > 60 { format!("{}... ({} bytes)", s.chars().take(40).collect::<String>(), s.len()) } else { s.to_string() };
    let short_e: String = if escaped.chars().count() > 60 { format!("{}... ({} bytes)", escaped.chars().take(40).collect::<String>(), escaped.len()) } else { escaped.to_string() };
    if s.len() == 3 && s.starts_with('*') {
        rep.sample(json!({"string": s, "escaped": escaped}));
    }
    let has_meta = s.chars().any(wax::is_meta_character);
    let case = |check: &str| json!({"kind": "escape", "string": s, "check": check});
    if !has_meta && escaped.as_ref() != s {
        rep.alarm(Alarm {
            class: None,
            key: format!("unchanged {:?}", short_s),
            msg: format!("escape({:?}) = {:?} although the string has no meta-character", short_s, short_e),
            case: case("unchanged"),
        });
    }
    let g = match model::build(escaped.as_ref()) {
        model::Built::Ok(g) => g,
        model::Built::Err(err) => {
            rep.alarm(Alarm {
                class: None,
                key: format!("build {:?}", short_s),
                msg: format!("escape({:?}) = {:?} does not build: {}", short_s, short_e, err),
                case: case("build"),
            });
            return;
        },
        model::Built::Panic(p) => {
            rep.alarm(Alarm {
                class: None,
                key: format!("build {:?}", short_s),
                msg: format!("Glob::new(escape({:?})) panics: {}", short_s, p),
                case: case("build"),
            });
            return;
        },
    };
    match g.text() {
        TextVariance::Invariant(t) if t.as_ref() == s => {},
        other => {
            rep.alarm(Alarm {
                class: None,
                key: format!("text {:?}", short_s),
                msg: format!("Glob::new(escape({:?})).text() = {:?}, expected invariant {:?}", short_s, other, short_s),
                case: case("text"),
            });
        },
    }
    if !g.is_match(s) {
        rep.alarm(Alarm {
            class: None,
            key: format!("self {:?}", short_s),
            msg: format!("Glob::new(escape({:?})) = `{}` does not match {:?}", short_s, short_e, short_s),
            case: case("self"),
        });
    }
    if model_check {
        let Ok(dfa) = model::dfa_of_glob(&g) else { return };
        let text: Vec<char> = s.chars().collect();
        let Ok(alphabet) = automata::alphabet(&[dfa.pattern.as_str()], &text) else { return };
        let ex = model::explore_counted(c, &[&dfa], &TextMon { text: text.clone() }, &alphabet);
        let (v, mism) = model::validate_binding(&ex, &[&dfa], &[&|p: &str| g.is_match(p)]);
        bump(c, "traces_validated_against_impl", v);
        if !mism.is_empty() {
            bump(c, "binding_mismatches", mism.len() as u64);
        }
        for (i, (t, pos)) in ex.states.iter().enumerate() {
            if automata::acc(&[&dfa], t, 0) && *pos != Some(text.len() as u32) {
                let p = ex.access(i);
                if g.is_match(p.as_str()) {
                    rep.alarm(Alarm {
                        class: None,
                        key: format!("other {:?}", short_s),
                        msg: format!("Glob::new(escape({:?})) = `{}` also matches {:?}", short_s, short_e, p),
                        case: json!({"kind": "escape", "string": s, "check": "other", "path": p}),
                    });
                    break;
                }
            }
        }
    }
}

pub fn c18(tier: Tier) -> i32 {
    let rep = Report::new("C18", tier, "model_checking");
    // S1: every string up to L over the metas + `/ - ! a i . 金 \ `
    let mut alpha: Vec<char> = syntax::METAS.to_vec();
    alpha.extend(['/', '-', '!', 'a', 'i', '.', '金', '\\']);
    let l = tier.pick(4, 5);
    let mut strings: Vec<String> = vec![String::new()];
    let mut frontier = vec![String::new()];
    for _ in 0..l {
        let mut next = vec![];
        for s in &frontier {
            for ch in &alpha {
                let mut t = s.clone();
                t.push(*ch);
                next.push(t);
            }
        }
        strings.extend(next.iter().cloned());
        frontier = next;
    }
    rep.add("s1_strings_enumerated", strings.len() as u64);
    strings.par_iter().for_each(|s| {
        let mut c = Counters::new();
        if guard(|| c18_check(&rep, &mut c, s, true)).is_err() {
            bump(&mut c, "skipped_panics", 1);
        }
        rep.merge(&c);
    });
    // S2: every subset of the metas in fixed order, every arrangement of <= 4 metas is in S1
    let metas = syntax::METAS;
    let subsets: Vec<String> = (0u32..(1 << metas.len()))
        .map(|m| metas.iter().enumerate().filter(|(i, _)| m & (1 << i) != 0).map(|(_, c)| *c).collect())
        .collect();
    rep.add("s2_meta_subsets", subsets.len() as u64);
    subsets.par_iter().for_each(|s| {
        let mut c = Counters::new();
        if guard(|| c18_check(&rep, &mut c, s, true)).is_err() {
            bump(&mut c, "skipped_panics", 1);
        }
        rep.merge(&c);
    });
    // S3: all Unicode scalar values c as `a{c}b` - the meta-set claim: a character is literal
    // in the parser iff it is not reported as a meta-character
    let scalars: Vec<u32> = (0u32..=0x10FFFF).filter(|c| char::from_u32(*c).is_some()).collect();
    let step = tier.pick(1usize, 1usize);
    rep.add("s3_scalars", (scalars.len() / step) as u64);
    scalars.par_chunks(4096).for_each(|chunk| {
        let mut c = Counters::new();
        for cp in chunk.iter().step_by(step) {
            let ch = char::from_u32(*cp).unwrap();
            let s: String = ['a', ch, 'b'].iter().collect();
            // full model check only for ASCII and a few classes; API checks for every scalar
            let mc = *cp < 0x80 || *cp % 4099 == 0;
            if guard(|| c18_check(&rep, &mut c, &s, mc)).is_err() {
                bump(&mut c, "skipped_panics", 1);
            }
            // meta-set claim: unescaped, the string builds to the literal iff c is not meta
            // (and not the separator / escape / contextual meta)
            let meta = wax::is_meta_character(ch);
            let raw = guard(|| {
                Glob::new(&s).ok().map(|g| match g.text() {
                    TextVariance::Invariant(t) => t.as_ref() == s,
                    _ => false,
                })
            });
            let literal = matches!(raw, Ok(Some(true)));
            bump(&mut c, "meta_claims_checked", 1);
            if ch != '\\' && meta == literal {
                rep.alarm(Alarm {
                    class: None,
                    key: format!("meta {:?}", ch),
                    msg: format!(
                        "is_meta_character({:?}) = {} but `a{}b` {} as the literal text",
                        ch, meta, ch, if literal { "builds" } else { "does not build" }
                    ),
                    case: json!({"kind": "escape", "string": s, "check": "meta"}),
                });
            }
        }
        rep.merge(&c);
    });
    // S4: long texts below the size limit of invariant text (65 536 bytes): runs of one
    // character (every meta, a literal, a multi-byte literal) and mixtures, as one component and
    // spread over components; API checks only (the automaton of a 64 KiB literal is not explored)
    {
        let mut chars: Vec<char> = syntax::METAS.to_vec();
        chars.extend(['a', '-', '!', '金']);
        let mut long: Vec<String> = vec![];
        for ch in &chars {
            for bytes in [16384usize, 21846, 32767, 32768, 40000, 65535] {
                long.push(std::iter::repeat(*ch).take(bytes / ch.len_utf8()).collect());
            }
        }
        for unit in ["a*", "[a]", "{a,b}", "a?/", "*/", "(?i)a"] {
            for bytes in [32768usize, 65535] {
                long.push(unit.repeat(bytes / unit.len()));
            }
        }
        rep.add("s4_long_texts", long.len() as u64);
        long.par_iter().for_each(|s| {
            let mut c = Counters::new();
            if guard(|| c18_check(&rep, &mut c, s, false)).is_err() {
                bump(&mut c, "skipped_panics", 1);
            }
            rep.merge(&c);
        });
    }
    // contextual meta character: a character that acts as a meta-character inside a class
    // (there `[a{c}z]` is not the three-character class) must be reported as contextual meta
    for cp in 0x20u32..0x7f {
        let ch = char::from_u32(cp).unwrap();
        if ch == ']' || ch == '[' || ch == '\\' || ch == '!' {
            continue;
        }
        let expr = format!("[a{}z]", ch);
        let plain = guard(|| {
            Glob::new(&expr).ok().map(|g| {
                let probe = if ch == 'm' { "n" } else { "m" };
                g.is_match("a") && g.is_match("z") && g.is_match(ch.to_string().as_str()) && !g.is_match(probe)
            })
        });
        let acts_as_meta = !matches!(plain, Ok(Some(true)));
        rep.add("contextual_claims_checked", 1);
        if acts_as_meta && !wax::is_contextual_meta_character(ch) && !wax::is_meta_character(ch) && ch != '/' {
            rep.alarm(Alarm {
                class: None,
                key: format!("contextual {:?}", ch),
                msg: format!("{:?} acts as a meta-character inside a class (`{}`) but is not reported as contextual", ch, expr),
                case: json!({"kind": "escape", "string": expr, "check": "contextual"}),
            });
        }
    }
    let opts = SpaceOpts::standard(tier);
    finish_mc(&rep, &opts, &format!("every string of length <= {} over the 13 metas and `/ - ! a i . 金 \\`, every subset of the metas, every Unicode scalar c as a{{c}}b; for each: escape, build, text(), self-match and the singleton product implDFA x position-in-text over ALL paths", l))
}

pub fn replay_escape(case: &serde_json::Value) -> bool {
    let s = case["string"].as_str().unwrap();
    let check = case["check"].as_str().unwrap();
    let escaped = wax::escape(s);
    println!("escape({:?}) = {:?}", s, escaped);
    match check {
        "meta" => {
            let ch = s.chars().nth(1).unwrap();
            let meta = wax::is_meta_character(ch);
            let literal = Glob::new(s).ok().map_or(false, |g| matches!(g.text(), TextVariance::Invariant(t) if t.as_ref() == s));
            println!("  is_meta_character({:?}) = {}; `{}` builds as literal text: {}", ch, meta, s, literal);
            meta == literal
        },
        "unchanged" => escaped.as_ref() != s,
        _ => match Glob::new(escaped.as_ref()) {
            Err(e) => {
                println!("  does not build: {}", e);
                true
            },
            Ok(g) => {
                println!("  text() = {:?}; is_match(self) = {}", g.text(), g.is_match(s));
                match check {
                    "text" => !matches!(g.text(), TextVariance::Invariant(t) if t.as_ref() == s),
                    "self" => !g.is_match(s),
                    "other" => {
                        let p = case["path"].as_str().unwrap();
                        println!("  is_match({:?}) = {}", p, g.is_match(p));
                        g.is_match(p) && p != s
                    },
                    _ => false,
                }
            },
        },
    }
}

#[allow(dead_code)]
fn unused(_: PathBuf) {}
