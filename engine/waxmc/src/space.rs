//! Program space driver: runs a closure over every expression of the tier's space, in parallel.

use rayon::prelude::*;
use refmodel::gen::{self, Gen, GenCfg};
use refmodel::syntax::{self, Seq};
use std::sync::atomic::{AtomicU64, Ordering};

use crate::common::Tier;

pub struct Expr {
    pub text: String,
    /// AST with spans assigned by the printer
    pub ast: Seq,
    /// which pass produced it
    pub pass: &'static str,
}

#[derive(Clone, Debug)]
pub struct SpaceOpts {
    /// largest shape size (core alphabet)
    pub shape: usize,
    /// substitution: single-slot on shapes up to this size, pairs up to `subst_pairs`
    pub subst_single: usize,
    pub subst_pairs: usize,
    /// sizes above `shape` up to this, reduced alphabet (0 = none)
    pub reduced: usize,
    pub corpus: bool,
    pub letter_canonical: bool,
    /// position family: nesting depth with the reduced context set, and with the full set
    pub position: usize,
    pub position_full: usize,
    /// include the adjacent-branch family (with the other families, when `position` > 0)
    pub adjacent: bool,
}

impl SpaceOpts {
    pub fn standard(tier: Tier) -> SpaceOpts {
        match tier {
            Tier::Quick => SpaceOpts {
                shape: 4,
                subst_single: 3,
                subst_pairs: 2,
                reduced: 0,
                corpus: true,
                letter_canonical: true,
                position: 2,
                position_full: 1,
                adjacent: true,
            },
            Tier::Thorough => SpaceOpts {
                shape: 5,
                subst_single: 3,
                subst_pairs: 3,
                reduced: 6,
                corpus: true,
                letter_canonical: true,
                position: 3,
                position_full: 2,
                adjacent: true,
            },
        }
    }
}

pub fn corpus() -> Vec<String> {
    let path = crate::common::verif_dir().join("corpus.txt");
    match std::fs::read_to_string(path) {
        Ok(t) => t.lines().filter(|l| !l.starts_with("#!")).map(|l| l.to_string()).collect(),
        Err(_) => vec![],
    }
}

pub fn mk(ast: &Seq, pass: &'static str) -> Expr {
    let mut ast = ast.clone();
    let text = syntax::print(&mut ast);
    Expr { text, ast, pass }
}

/// Runs `f` over the space. Returns the number of expressions visited.
pub fn for_each_expr(opts: &SpaceOpts, f: &(dyn Fn(&Expr) + Sync)) -> u64 {
    let count = AtomicU64::new(0);
    let visit = |ast: &Seq, pass: &'static str| {
        if opts.letter_canonical && pass == "shape" && !gen::is_letter_canonical(ast) {
            return;
        }
        count.fetch_add(1, Ordering::Relaxed);
        f(&mk(ast, pass));
    };
    // the empty expression
    f(&Expr { text: String::new(), ast: vec![], pass: "shape" });
    count.fetch_add(1, Ordering::Relaxed);
    // shape pass
    let g = Gen::new(GenCfg::core(), opts.shape);
    for size in 1..=opts.shape {
        let tasks = g.tasks(size);
        tasks.par_iter().for_each(|prefix| {
            g.for_each_with_prefix(size, prefix, &mut |s: &Seq| visit(s, "shape"));
        });
        if size == g.max_size {
            (0..g.top_item_chunks()).into_par_iter().for_each(|c| {
                g.for_each_top_item(c, &mut |s: &Seq| visit(s, "shape"));
            });
        }
    }
    // substitution pass
    let smax = opts.subst_single.max(opts.subst_pairs);
    if smax > 0 {
        let mut shapes: Vec<(usize, Seq)> = vec![];
        for size in 1..=smax.min(opts.shape) {
            g.for_each_exact(size, &mut |s: &Seq| {
                if gen::is_letter_canonical(s) {
                    shapes.push((size, s.clone()));
                }
            });
        }
        shapes.par_iter().for_each(|(size, shape)| {
            if *size <= opts.subst_single || *size <= opts.subst_pairs {
                gen::substitutions(shape, *size <= opts.subst_pairs, &mut |s: &Seq| visit(s, "subst"));
            }
        });
    }
    // reduced alphabet, larger sizes
    if opts.reduced > opts.shape {
        let g2 = Gen::new(GenCfg::reduced(), opts.reduced);
        for size in (opts.shape + 1)..=opts.reduced {
            let tasks = g2.tasks(size);
            tasks.par_iter().for_each(|prefix| {
                g2.for_each_with_prefix(size, prefix, &mut |s: &Seq| visit(s, "reduced"));
            });
            if size == g2.max_size {
                (0..g2.top_item_chunks()).into_par_iter().for_each(|c| {
                    g2.for_each_top_item(c, &mut |s: &Seq| visit(s, "reduced"));
                });
            }
        }
    }
    // position family: all but the last level are materialised, the last one is streamed
    {
        for (depth, full) in [(opts.position, false), (opts.position_full, true)] {
            if depth == 0 {
                continue;
            }
            let fam = gen::PositionFamily::new(depth - 1, full);
            let cores_level: Vec<Seq> = if depth == 1 { gen::PositionFamily::new(0, full).levels.into_iter().flatten().collect() } else { vec![] };
            let _ = cores_level;
            for level in &fam.levels {
                level.par_iter().for_each(|s| visit(s, "position"));
            }
            // last level
            let prev: Vec<Seq> = match fam.levels.last() {
                Some(l) => l.clone(),
                None => gen::position_cores(),
            };
            prev.par_iter().for_each(|x| {
                fam.wraps_of(x, &mut |s| visit(s, "position"));
            });
        }
        if opts.position > 0 {
            let flags = gen::flag_family();
            flags.par_iter().for_each(|s| visit(s, "flags"));
            let cased = gen::cased_family();
            cased.par_iter().for_each(|s| visit(s, "cased"));
            if opts.adjacent {
                let tails = gen::tail_family(opts.position_full >= 2 || std::env::var_os("WAXMC_FULL_FAMILIES").is_some());
                tails.par_iter().for_each(|s| visit(s, "tail"));
            }
            if opts.adjacent {
                let adjacent = gen::adjacent_family(opts.position_full >= 2 || std::env::var_os("WAXMC_FULL_FAMILIES").is_some());
                adjacent.par_iter().for_each(|s| visit(s, "adjacent"));
            }
        }
    }
    if opts.corpus {
        let c = corpus();
        c.par_iter().for_each(|text| {
            if let Ok(ast) = syntax::parse(text) {
                count.fetch_add(1, Ordering::Relaxed);
                f(&Expr { text: text.clone(), ast, pass: "corpus" });
            }
        });
    }
    count.load(Ordering::Relaxed)
}
