//! File-system space: in-memory worlds, their enumeration, construction on disk with a chosen
//! `readdir` order, and the reference traversal (DESIGN §2.3, Appendix C).

use std::fs;
use std::io;
use std::os::unix::fs::PermissionsExt;
use std::path::{Path, PathBuf};

#[derive(Clone, Debug, PartialEq, Eq, Hash)]
pub enum FKind {
    File,
    Dir { children: Vec<FNode>, readable: bool },
    /// symbolic link; target is relative to the link's parent directory
    Link { target: String },
}

#[derive(Clone, Debug, PartialEq, Eq, Hash)]
pub struct FNode {
    pub name: String,
    pub kind: FKind,
}

impl FNode {
    pub fn file(name: &str) -> FNode {
        FNode { name: name.into(), kind: FKind::File }
    }
    pub fn dir(name: &str, children: Vec<FNode>) -> FNode {
        FNode { name: name.into(), kind: FKind::Dir { children, readable: true } }
    }
    pub fn link(name: &str, target: &str) -> FNode {
        FNode { name: name.into(), kind: FKind::Link { target: target.into() } }
    }
    pub fn children(&self) -> &[FNode] {
        match &self.kind {
            FKind::Dir { children, .. } => children,
            _ => &[],
        }
    }
    pub fn is_dir(&self) -> bool {
        matches!(self.kind, FKind::Dir { .. })
    }
    pub fn count(&self) -> usize {
        1 + self.children().iter().map(|c| c.count()).sum::<usize>()
    }
    pub fn describe(&self) -> String {
        match &self.kind {
            FKind::File => self.name.clone(),
            FKind::Link { target } => format!("{}->{}", self.name, target),
            FKind::Dir { children, readable } => format!(
                "{}{}/{{{}}}",
                self.name,
                if *readable { "" } else { "(unreadable)" },
                children.iter().map(|c| c.describe()).collect::<Vec<_>>().join(",")
            ),
        }
    }
    pub fn to_json(&self) -> String {
        match &self.kind {
            FKind::File => format!("{{\"n\":{:?}}}", self.name),
            FKind::Link { target } => format!("{{\"n\":{:?},\"l\":{:?}}}", self.name, target),
            FKind::Dir { children, readable } => format!(
                "{{\"n\":{:?},\"r\":{},\"c\":[{}]}}",
                self.name,
                readable,
                children.iter().map(|c| c.to_json()).collect::<Vec<_>>().join(",")
            ),
        }
    }
}

/// A world: the children of the tree root directory, in the order `readdir` is to return them.
#[derive(Clone, Debug, PartialEq, Eq, Hash)]
pub struct World {
    pub root: FNode,
}

impl World {
    pub fn new(children: Vec<FNode>) -> World {
        World { root: FNode::dir("t", children) }
    }
    pub fn entries(&self) -> usize {
        self.root.count() - 1
    }
    pub fn describe(&self) -> String {
        self.root.describe()
    }
}

// ---------------------------------------------------------------------------------------------
// Enumeration
// ---------------------------------------------------------------------------------------------

/// All ordered forests (sequences of children with pairwise distinct names) with at most
/// `budget` entries in total. Every permutation of a set of siblings is a distinct forest, so
/// every `readdir` order is covered.
pub fn forests(budget: usize, names: &[&str], max_depth: usize) -> Vec<Vec<FNode>> {
    fn go(budget: usize, names: &[&str], used: &mut Vec<usize>, depth: usize, max_depth: usize) -> Vec<(usize, Vec<FNode>)> {
        // returns (entries used, forest)
        let mut out = vec![(0usize, vec![])];
        if budget == 0 {
            return out;
        }
        for (i, name) in names.iter().enumerate() {
            if used.contains(&i) {
                continue;
            }
            // first child = name i as file or dir, then the rest of the forest
            // file
            used.push(i);
            let rests = go(budget - 1, names, used, depth, max_depth);
            for (n, rest) in &rests {
                let mut f = vec![FNode::file(name)];
                f.extend(rest.iter().cloned());
                out.push((n + 1, f));
            }
            // dir with sub-forest of size k
            if depth < max_depth {
                let subs = go(budget - 1, names, &mut vec![], depth + 1, max_depth);
                for (k, sub) in &subs {
                    let rests = go(budget - 1 - k, names, used, depth, max_depth);
                    for (n, rest) in &rests {
                        let mut f = vec![FNode::dir(name, sub.clone())];
                        f.extend(rest.iter().cloned());
                        out.push((n + 1 + k, f));
                    }
                }
            }
            else {
                let rests = go(budget - 1, names, used, depth, max_depth);
                for (n, rest) in &rests {
                    let mut f = vec![FNode::dir(name, vec![])];
                    f.extend(rest.iter().cloned());
                    out.push((n + 1, f));
                }
            }
            used.pop();
        }
        out
    }
    go(budget, names, &mut vec![], 0, max_depth).into_iter().map(|(_, f)| f).collect()
}

pub fn worlds(budget: usize, names: &[&str], max_depth: usize) -> Vec<World> {
    let mut ws: Vec<World> = forests(budget, names, max_depth).into_iter().map(World::new).collect();
    ws.sort_by_key(|w| (w.entries(), w.describe()));
    ws.dedup();
    ws
}

/// Every world obtained from `world` by inserting one symbolic link named `name` at every
/// position of every directory, with every target kind: each sibling (file or directory), the
/// parent (`..`), the grandparent (`../..`), the directory itself (`.`) and a missing target.
pub fn with_link(world: &World, name: &str) -> Vec<World> {
    fn go(node: &FNode, depth: usize, name: &str, rebuild: &dyn Fn(FNode) -> World, out: &mut Vec<World>) {
        let FKind::Dir { children, readable } = &node.kind else { return };
        if children.iter().all(|c| c.name != name) {
            let mut targets: Vec<String> = children.iter().map(|c| c.name.clone()).collect();
            targets.push("missing".into());
            targets.push(".".into());
            if depth >= 1 {
                targets.push("..".into());
            }
            if depth >= 2 {
                targets.push("../..".into());
            }
            for t in targets {
                for pos in 0..=children.len() {
                    let mut ch = children.clone();
                    ch.insert(pos, FNode::link(name, &t));
                    out.push(rebuild(FNode { name: node.name.clone(), kind: FKind::Dir { children: ch, readable: *readable } }));
                }
            }
        }
        for (i, c) in children.iter().enumerate() {
            let rebuild_child = |newc: FNode| -> World {
                let mut ch = children.clone();
                ch[i] = newc;
                rebuild(FNode { name: node.name.clone(), kind: FKind::Dir { children: ch, readable: *readable } })
            };
            go(c, depth + 1, name, &rebuild_child, out);
        }
    }
    let mut out = vec![];
    go(&world.root, 0, name, &|n| World { root: n }, &mut out);
    out
}

/// Every world obtained by making exactly one directory (the root included) unreadable.
pub fn with_unreadable(world: &World) -> Vec<World> {
    fn go(node: &FNode, rebuild: &dyn Fn(FNode) -> World, out: &mut Vec<World>) {
        let FKind::Dir { children, readable } = &node.kind else { return };
        if *readable {
            out.push(rebuild(FNode { name: node.name.clone(), kind: FKind::Dir { children: children.clone(), readable: false } }));
        }
        for (i, c) in children.iter().enumerate() {
            let rebuild_child = |newc: FNode| -> World {
                let mut ch = children.clone();
                ch[i] = newc;
                rebuild(FNode { name: node.name.clone(), kind: FKind::Dir { children: ch, readable: *readable } })
            };
            go(c, &rebuild_child, out);
        }
    }
    let mut out = vec![];
    go(&world.root, &|n| World { root: n }, &mut out);
    out
}

// ---------------------------------------------------------------------------------------------
// Construction on disk
// ---------------------------------------------------------------------------------------------

fn build_node(parent: &Path, node: &FNode, unreadable: &mut Vec<PathBuf>) -> io::Result<()> {
    let path = parent.join(&node.name);
    match &node.kind {
        FKind::File => {
            fs::write(&path, b"")?;
        },
        FKind::Link { target } => {
            std::os::unix::fs::symlink(target, &path)?;
        },
        FKind::Dir { children, readable } => {
            fs::create_dir(&path)?;
            // tmpfs returns entries in reverse creation order: create the last child first
            for c in children.iter().rev() {
                build_node(&path, c, unreadable)?;
            }
            if !*readable {
                unreadable.push(path);
            }
        },
    }
    Ok(())
}

pub struct Built {
    pub root: PathBuf,
    unreadable: Vec<PathBuf>,
}

impl Built {
    pub fn cleanup(&self) {
        // parents are recorded after their children: restore them first
        for p in self.unreadable.iter().rev() {
            let _ = fs::set_permissions(p, fs::Permissions::from_mode(0o755));
        }
        let _ = fs::remove_dir_all(&self.root);
    }
}

/// Builds the world under `dir` (which must exist and be empty of a `t` entry); returns the path
/// of the tree root `dir/t`.
pub fn build(world: &World, dir: &Path) -> io::Result<Built> {
    let mut unreadable = vec![];
    build_node(dir, &world.root, &mut unreadable)?;
    for p in &unreadable {
        fs::set_permissions(p, fs::Permissions::from_mode(0o000))?;
    }
    Ok(Built { root: dir.join(&world.root.name), unreadable })
}

/// Reads the directory order back: does `readdir` return the children in the intended order
/// everywhere?
pub fn order_honoured(node: &FNode, path: &Path) -> bool {
    if let FKind::Dir { children, readable } = &node.kind {
        if !*readable {
            return true;
        }
        let Ok(rd) = fs::read_dir(path) else { return false };
        let names: Vec<String> = rd.flatten().map(|e| e.file_name().to_string_lossy().to_string()).collect();
        let want: Vec<String> = children.iter().map(|c| c.name.clone()).collect();
        if names != want {
            return false;
        }
        for c in children {
            if !order_honoured(c, &path.join(&c.name)) {
                return false;
            }
        }
    }
    true
}

// ---------------------------------------------------------------------------------------------
// Reference traversal
// ---------------------------------------------------------------------------------------------

#[derive(Clone, Copy, Debug, PartialEq, Eq, Hash, PartialOrd, Ord)]
pub enum EKind {
    File,
    Dir,
    Symlink,
}

#[derive(Clone, Copy, Debug, PartialEq, Eq, Hash, PartialOrd, Ord)]
pub enum ErrKind {
    Io,
    Loop,
}

#[derive(Clone, Debug, PartialEq, Eq, Hash, PartialOrd, Ord)]
pub enum RItem {
    /// components relative to the traversal root (empty = the traversal root itself)
    Entry { rel: Vec<String>, kind: EKind },
    Err { rel: Vec<String>, kind: ErrKind },
}

impl RItem {
    pub fn rel(&self) -> &Vec<String> {
        match self {
            RItem::Entry { rel, .. } | RItem::Err { rel, .. } => rel,
        }
    }
    pub fn depth(&self) -> usize {
        self.rel().len()
    }
}

/// Resolves a path of names (with `..`) from a directory given by its node path from the tree
/// root. Returns the node path of the target, or None if it does not exist / leaves the tree.
fn resolve(world: &World, from_dir: &[usize], target: &str) -> Option<Vec<usize>> {
    resolve_hops(world, from_dir, target, 0)
}

fn resolve_hops(world: &World, from_dir: &[usize], target: &str, hops: usize) -> Option<Vec<usize>> {
    if hops > 8 {
        return None; // ELOOP
    }
    let mut cur: Vec<usize> = from_dir.to_vec();
    for comp in target.split('/') {
        match comp {
            "" | "." => {},
            ".." => {
                cur.pop()?;
            },
            name => {
                let node = node_at(world, &cur)?;
                let idx = node.children().iter().position(|c| c.name == name)?;
                // a link inside the target path is followed in turn
                if let FKind::Link { target: t2 } = &node.children()[idx].kind {
                    cur = resolve_hops(world, &cur, t2, hops + 1)?;
                }
                else {
                    cur.push(idx);
                }
            },
        }
    }
    Some(cur)
}

/// Does the walked path `rel` (which may pass through followed links) name a symbolic link?
pub fn names_link(world: &World, rel: &[String]) -> bool {
    let mut cur: Vec<usize> = vec![];
    for (i, comp) in rel.iter().enumerate() {
        let Some(node) = node_at(world, &cur) else { return false };
        let Some(idx) = node.children().iter().position(|c| &c.name == comp) else { return false };
        let child = &node.children()[idx];
        let last = i + 1 == rel.len();
        match &child.kind {
            FKind::Link { target } => {
                if last {
                    return true;
                }
                match resolve(world, &cur, target) {
                    Some(t) => cur = t,
                    None => return false,
                }
            },
            _ => {
                if last {
                    return false;
                }
                cur.push(idx);
            },
        }
    }
    false
}

pub fn node_at<'a>(world: &'a World, path: &[usize]) -> Option<&'a FNode> {
    let mut n = &world.root;
    for i in path {
        n = n.children().get(*i)?;
    }
    Some(n)
}

/// Node path (indices) of the directory named by components below the tree root.
pub fn find(world: &World, comps: &[&str]) -> Option<Vec<usize>> {
    let mut cur = vec![];
    let mut n = &world.root;
    for c in comps {
        let idx = n.children().iter().position(|x| x.name == *c)?;
        cur.push(idx);
        n = &n.children()[idx];
    }
    Some(cur)
}

/// Pre-order traversal from the directory at node path `start`, in child order, with walkdir's
/// link policy. Depth limits are applied by the caller.
pub fn traverse(world: &World, start: &[usize], follow: bool) -> Vec<RItem> {
    let mut out = vec![];
    let Some(root) = node_at(world, start) else { return out };
    match &root.kind {
        FKind::Dir { readable, .. } => {
            out.push(RItem::Entry { rel: vec![], kind: EKind::Dir });
            if *readable {
                let mut stack = vec![start.to_vec()];
                descend(world, start, &mut vec![], follow, &mut stack, &mut out);
            }
            else {
                out.push(RItem::Err { rel: vec![], kind: ErrKind::Io });
            }
        },
        FKind::File => out.push(RItem::Entry { rel: vec![], kind: EKind::File }),
        FKind::Link { .. } => out.push(RItem::Entry { rel: vec![], kind: EKind::Symlink }),
    }
    out
}

fn descend(
    world: &World,
    dir: &[usize],
    rel: &mut Vec<String>,
    follow: bool,
    stack: &mut Vec<Vec<usize>>,
    out: &mut Vec<RItem>,
) {
    let node = node_at(world, dir).unwrap();
    for (i, child) in node.children().iter().enumerate() {
        rel.push(child.name.clone());
        let mut cpath = dir.to_vec();
        cpath.push(i);
        match &child.kind {
            FKind::File => out.push(RItem::Entry { rel: rel.clone(), kind: EKind::File }),
            FKind::Dir { readable, .. } => {
                out.push(RItem::Entry { rel: rel.clone(), kind: EKind::Dir });
                if *readable {
                    stack.push(cpath.clone());
                    descend(world, &cpath, rel, follow, stack, out);
                    stack.pop();
                }
                else {
                    out.push(RItem::Err { rel: rel.clone(), kind: ErrKind::Io });
                }
            },
            FKind::Link { target } => {
                if !follow {
                    out.push(RItem::Entry { rel: rel.clone(), kind: EKind::Symlink });
                }
                else {
                    match resolve(world, dir, target) {
                        None => out.push(RItem::Err { rel: rel.clone(), kind: ErrKind::Io }),
                        Some(tpath) => {
                            let tnode = node_at(world, &tpath).unwrap();
                            match &tnode.kind {
                                FKind::File => out.push(RItem::Entry { rel: rel.clone(), kind: EKind::File }),
                                FKind::Link { .. } => {
                                    // link to link: not generated
                                    out.push(RItem::Entry { rel: rel.clone(), kind: EKind::File })
                                },
                                FKind::Dir { readable, .. } => {
                                    if stack.contains(&tpath) {
                                        out.push(RItem::Err { rel: rel.clone(), kind: ErrKind::Loop });
                                    }
                                    else {
                                        out.push(RItem::Entry { rel: rel.clone(), kind: EKind::Dir });
                                        if *readable {
                                            stack.push(tpath.clone());
                                            descend(world, &tpath, rel, follow, stack, out);
                                            stack.pop();
                                        }
                                        else {
                                            out.push(RItem::Err { rel: rel.clone(), kind: ErrKind::Io });
                                        }
                                    }
                                },
                            }
                        },
                    }
                }
            },
        }
        rel.pop();
    }
}

#[cfg(test)]
mod tests {
    use super::*;

    #[test]
    fn counts() {
        for n in 0..=4 {
            let ws = worlds(n, &["a", "b", ".a"], 3);
            eprintln!("N<={}: {} worlds", n, ws.len());
        }
        let w = World::new(vec![FNode::dir("a", vec![FNode::file("x"), FNode::link("up", "..")]), FNode::file("b")]);
        let items = traverse(&w, &[], true);
        assert!(items.contains(&RItem::Err { rel: vec!["a".into(), "up".into()], kind: ErrKind::Loop }));
        let items = traverse(&w, &[], false);
        assert!(items.contains(&RItem::Entry { rel: vec!["a".into(), "up".into()], kind: EKind::Symlink }));
    }
}
