//! Deciding "for every candidate path": dense DFAs compiled from pattern text, a finite alphabet
//! partition that is sound for all of Unicode, and an explicit-state product explorer
//! (DESIGN §2.2).

use regex_automata::dfa::{dense, Automaton, StartKind};
use regex_automata::nfa::thompson;
use regex_automata::util::primitives::StateID;
use regex_automata::util::start;
use regex_automata::util::syntax;
use regex_automata::{Anchored, MatchKind};
use regex_syntax::hir::{Class, Hir, HirKind};
use std::collections::{BTreeSet, HashMap};
use std::hash::Hash;

pub struct Dfa {
    dfa: dense::DFA<Vec<u32>>,
    start: StateID,
    pub pattern: String,
}

impl Dfa {
    pub fn new(pattern: &str) -> Result<Dfa, String> {
        let dfa = dense::Builder::new()
            .configure(
                dense::Config::new()
                    .start_kind(StartKind::Anchored)
                    .match_kind(MatchKind::All)
                    .accelerate(false)
                    .minimize(false)
                    .dfa_size_limit(Some(64 << 20))
                    .determinize_size_limit(Some(64 << 20)),
            )
            .syntax(syntax::Config::new().unicode(true).utf8(true))
            .thompson(thompson::Config::new().utf8(true))
            .build(pattern)
            .map_err(|e| format!("{}", e))?;
        let start = dfa
            .start_state(&start::Config::new().anchored(Anchored::Yes))
            .map_err(|e| format!("{}", e))?;
        Ok(Dfa { dfa, start, pattern: pattern.to_string() })
    }

    /// Automaton of `Regex::is_match` for an arbitrary pattern text: an unanchored search, i.e.
    /// "the pattern matches somewhere in the text". For a properly anchored pattern `^X$` this is
    /// the same language as `X`; for a pattern that lost an anchor (or gained the `m` flag) it is
    /// what the implementation really answers.
    pub fn new_search(pattern: &str) -> Result<Dfa, String> {
        let wrapped = format!("(?s:.*)(?:{})(?s:.*)", pattern);
        let mut d = Dfa::new(&wrapped)?;
        d.pattern = pattern.to_string();
        Ok(d)
    }

    #[inline]
    pub fn start(&self) -> StateID {
        self.start
    }

    #[inline]
    pub fn step(&self, mut s: StateID, c: char) -> StateID {
        let mut buf = [0u8; 4];
        for b in c.encode_utf8(&mut buf).as_bytes() {
            s = self.dfa.next_state(s, *b);
        }
        s
    }

    #[inline]
    pub fn accepting(&self, s: StateID) -> bool {
        let e = self.dfa.next_eoi_state(s);
        self.dfa.is_match_state(e)
    }

    #[inline]
    pub fn is_dead(&self, s: StateID) -> bool {
        self.dfa.is_dead_state(s)
    }

    pub fn accepts(&self, text: &str) -> bool {
        let mut s = self.start;
        for c in text.chars() {
            s = self.step(s, c);
        }
        self.accepting(s)
    }

    /// Is some canonical path strictly beneath `dir` accepted? (`dir` is a canonical path, the
    /// continuation is `/` followed by non-empty components none of which is `.`.) Exhaustive
    /// search of the automaton's states reachable after `dir/`.
    pub fn accepts_something_beneath(&self, dir: &str) -> bool {
        let Ok(alphabet) = alphabet(&[self.pattern.as_str()], &[]) else { return true };
        let mut s = self.start;
        for c in dir.chars() {
            s = self.step(s, c);
        }
        if !dir.is_empty() && dir != "/" {
            s = self.step(s, '/');
        }
        // phase: 1 = a component must start, 2 = the component is "." so far, 3 = inside a component
        let mut seen: std::collections::HashSet<(StateID, u8)> = std::collections::HashSet::new();
        let mut queue = vec![(s, 1u8)];
        seen.insert((s, 1));
        while let Some((q, phase)) = queue.pop() {
            for &c in &alphabet {
                let next_phase = match (phase, c) {
                    (1, '/') | (2, '/') => continue,
                    (3, '/') => 1,
                    (1, '.') => 2,
                    _ => 3,
                };
                let q2 = self.step(q, c);
                if next_phase == 3 && self.accepting(q2) {
                    return true;
                }
                if seen.insert((q2, next_phase)) {
                    queue.push((q2, next_phase));
                }
            }
        }
        false
    }

    pub fn state_count_hint(&self) -> usize {
        self.dfa.memory_usage()
    }
}

fn collect_cuts(hir: &Hir, cuts: &mut BTreeSet<u32>) {
    match hir.kind() {
        HirKind::Empty | HirKind::Look(_) => {},
        HirKind::Literal(lit) => {
            if let Ok(s) = std::str::from_utf8(&lit.0) {
                for c in s.chars() {
                    cuts.insert(c as u32);
                    cuts.insert(c as u32 + 1);
                }
            }
            else {
                for b in lit.0.iter() {
                    cuts.insert(*b as u32);
                    cuts.insert(*b as u32 + 1);
                }
            }
        },
        HirKind::Class(Class::Unicode(cls)) => {
            for r in cls.ranges() {
                cuts.insert(r.start() as u32);
                cuts.insert(r.end() as u32 + 1);
            }
        },
        HirKind::Class(Class::Bytes(cls)) => {
            for r in cls.ranges() {
                cuts.insert(r.start() as u32);
                cuts.insert(r.end() as u32 + 1);
            }
        },
        HirKind::Repetition(rep) => collect_cuts(&rep.sub, cuts),
        HirKind::Capture(cap) => collect_cuts(&cap.sub, cuts),
        HirKind::Concat(v) | HirKind::Alternation(v) => {
            for h in v {
                collect_cuts(h, cuts);
            }
        },
    }
}

/// Number of cells and one representative character per cell of the coarsest partition of the
/// Unicode scalar values that refines every atom of every pattern and every extra character.
pub fn alphabet(patterns: &[&str], extra: &[char]) -> Result<Vec<char>, String> {
    let mut cuts: BTreeSet<u32> = BTreeSet::new();
    for p in patterns {
        let hir = regex_syntax::ParserBuilder::new()
            .unicode(true)
            .utf8(true)
            .build()
            .parse(p)
            .map_err(|e| format!("{}", e))?;
        collect_cuts(&hir, &mut cuts);
    }
    for c in extra {
        cuts.insert(*c as u32);
        cuts.insert(*c as u32 + 1);
    }
    // always distinguished: separator, newline, dot; UTF-8 length classes; surrogate gap
    for c in ['/', '\n', '.'] {
        cuts.insert(c as u32);
        cuts.insert(c as u32 + 1);
    }
    for c in [0u32, 0x80, 0x800, 0xD800, 0xE000, 0x10000, 0x110000] {
        cuts.insert(c);
    }
    let cuts: Vec<u32> = cuts.into_iter().filter(|c| *c <= 0x110000).collect();
    let mut reps = vec![];
    for w in cuts.windows(2) {
        let (lo, hi) = (w[0], w[1] - 1); // inclusive cell
        if lo >= 0xD800 && hi <= 0xDFFF {
            continue;
        }
        // prefer a printable ASCII representative
        let mut rep = None;
        if lo < 0x7f && hi >= 0x20 {
            let a = lo.max(0x20);
            let b = hi.min(0x7e);
            // prefer a lowercase letter, then any alphanumeric, then anything
            for pass in 0..3 {
                for c in a..=b {
                    let ch = char::from_u32(c).unwrap();
                    let ok = match pass {
                        0 => ch.is_ascii_lowercase(),
                        1 => ch.is_ascii_alphanumeric(),
                        _ => true,
                    };
                    if ok {
                        rep = Some(ch);
                        break;
                    }
                }
                if rep.is_some() {
                    break;
                }
            }
        }
        let rep = rep.unwrap_or_else(|| char::from_u32(lo).unwrap());
        reps.push(rep);
    }
    Ok(reps)
}

/// A deterministic monitor automaton composed into the product. `step` returning `None` prunes
/// the successor (used for prefix-closed "unspecified" conditions and for restricting the
/// exploration to canonical paths).
pub trait Monitor {
    type S: Copy + Eq + Hash;
    fn init(&self) -> Self::S;
    /// `accs` is the bit mask of DFAs that accept the string read so far (before `c`).
    fn step(&self, s: &Self::S, accs: u32, c: char) -> Option<Self::S>;
}

pub struct NoMonitor;
impl Monitor for NoMonitor {
    type S = ();
    fn init(&self) {}
    fn step(&self, _: &(), _: u32, _: char) -> Option<()> {
        Some(())
    }
}

pub const MAX_DFAS: usize = 8;

#[derive(Clone, Copy, PartialEq, Eq, Hash)]
pub struct Tuple(pub [u32; MAX_DFAS]);

pub struct Explored<S> {
    pub states: Vec<(Tuple, S)>,
    /// parent index and the character read; the initial state has parent u32::MAX
    pub parent: Vec<(u32, char)>,
    pub transitions: u64,
    pub capped: bool,
    /// transitions into states that were already known (from, character, to): together with the
    /// BFS tree (`parent`) these are ALL explored transitions
    pub cross: Vec<(u32, char, u32)>,
}

impl<S> Explored<S> {
    /// access string of state `i` (BFS => shortest)
    pub fn access(&self, mut i: usize) -> String {
        let mut rev = vec![];
        while self.parent[i].0 != u32::MAX {
            rev.push(self.parent[i].1);
            i = self.parent[i].0 as usize;
        }
        rev.iter().rev().collect()
    }
}

/// Breadth-first exploration of every reachable state of DFA_1 x ... x DFA_n x monitor.
pub fn explore<M: Monitor>(dfas: &[&Dfa], mon: &M, alphabet: &[char], cap: usize) -> Explored<M::S> {
    assert!(dfas.len() <= MAX_DFAS);
    let mut init = [0u32; MAX_DFAS];
    for (i, d) in dfas.iter().enumerate() {
        init[i] = d.start().as_u32();
    }
    let mut ex = Explored { states: vec![], parent: vec![], transitions: 0, capped: false, cross: vec![] };
    let mut index: HashMap<(Tuple, M::S), u32> = HashMap::new();
    let s0 = (Tuple(init), mon.init());
    index.insert(s0, 0);
    ex.states.push(s0);
    ex.parent.push((u32::MAX, '\0'));
    let mut head = 0usize;
    while head < ex.states.len() {
        let (t, m) = ex.states[head];
        let mut accs = 0u32;
        for (i, d) in dfas.iter().enumerate() {
            if d.accepting(StateID::new_unchecked(t.0[i] as usize)) {
                accs |= 1 << i;
            }
        }
        for &c in alphabet {
            let Some(m2) = mon.step(&m, accs, c) else { continue };
            let mut t2 = [0u32; MAX_DFAS];
            for (i, d) in dfas.iter().enumerate() {
                t2[i] = d.step(StateID::new_unchecked(t.0[i] as usize), c).as_u32();
            }
            ex.transitions += 1;
            let key = (Tuple(t2), m2);
            match index.get(&key) {
                Some(&to) => ex.cross.push((head as u32, c, to)),
                None => {
                    if ex.states.len() >= cap {
                        ex.capped = true;
                        continue;
                    }
                    index.insert(key, ex.states.len() as u32);
                    ex.states.push(key);
                    ex.parent.push((head as u32, c));
                },
            }
        }
        head += 1;
    }
    ex
}

pub fn acc(dfas: &[&Dfa], t: &Tuple, i: usize) -> bool {
    dfas[i].accepting(StateID::new_unchecked(t.0[i] as usize))
}

// ---------------------------------------------------------------------------------------------
// Path vocabulary (DESIGN Appendix B) as monitors
// ---------------------------------------------------------------------------------------------

/// Canonical-path monitor: `ε | / | (/)? C (/ C)*` with `C = [^/]+ \ {"."}`. Also counts complete
/// components (saturating) and remembers rootedness.
#[derive(Clone, Copy, PartialEq, Eq, Hash, Debug)]
pub struct CanonState {
    /// 0 = at start, 1 = just after a separator (component must start), 2 = inside a component
    /// that is so far exactly ".", 3 = inside a component (not "."),
    pub phase: u8,
    pub rooted: bool,
    /// number of components started so far (saturating at `sat`)
    pub comps: u8,
}

impl CanonState {
    /// may the path end here and be canonical?
    pub fn is_canonical_end(&self) -> bool {
        match self.phase {
            0 => true,                         // ε
            1 => self.rooted && self.comps == 0, // "/" alone
            2 => false,                        // last component is "."
            _ => true,
        }
    }
}

pub fn canon_init() -> CanonState {
    CanonState { phase: 0, rooted: false, comps: 0 }
}

/// Steps the canonical-path monitor; `None` if the path can no longer become canonical.
pub fn canon_step(s: &CanonState, c: char, sat: u8) -> Option<CanonState> {
    let mut n = *s;
    if c == '/' {
        match s.phase {
            0 => {
                n.rooted = true;
                n.phase = 1;
            },
            1 => return None, // empty component
            2 => return None, // "." component
            _ => n.phase = 1,
        }
    }
    else {
        match s.phase {
            0 | 1 => {
                n.comps = (s.comps + 1).min(sat);
                n.phase = if c == '.' { 2 } else { 3 };
            },
            _ => n.phase = 3,
        }
    }
    Some(n)
}

#[cfg(test)]
mod tests {
    use super::*;

    #[test]
    fn dfa_basic() {
        let d = Dfa::new("^(?:/?|(.*/))a$").unwrap();
        assert!(d.accepts("a"));
        assert!(d.accepts("/a"));
        assert!(d.accepts("x/y/a"));
        assert!(!d.accepts("xa"));
        assert!(!d.accepts("x\ny/a"));
        let al = alphabet(&["^(?:/?|(.*/))a$"], &[]).unwrap();
        assert!(al.contains(&'a') && al.contains(&'/') && al.contains(&'\n'));
        let ex = explore(&[&d], &NoMonitor, &al, 100000);
        assert!(ex.states.len() > 2);
        let d2 = Dfa::new("^[a&&b]$").unwrap();
        assert!(!d2.accepts(""));
        let d3 = Dfa::new("^(?i)k$").unwrap();
        assert!(d3.accepts("\u{212A}"));
        let s1 = Dfa::new_search("(?s)^a.*$").unwrap();
        assert!(s1.accepts("a") && s1.accepts("a\nb") && !s1.accepts("ba") && !s1.accepts(""));
        let s2 = Dfa::new_search("(?ms)^a$").unwrap();
        assert!(s2.accepts("a") && s2.accepts("x\na") && s2.accepts("a\nx") && !s2.accepts("xa"));
        let s3 = Dfa::new_search("(?s)a$").unwrap();
        assert!(s3.accepts("xa") && !s3.accepts("ax"));
    }
}
