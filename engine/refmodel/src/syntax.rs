//! Reference syntax of the documented glob dialect: AST, printer and an independent
//! recursive-descent parser (no nom, nothing shared with wax).
//!
//! See DESIGN.md Appendix A.

use std::fmt::Write as _;

pub const METAS: &[char] = &[
    '?', '*', '$', ':', '<', '>', '(', ')', '[', ']', '{', '}', ',',
];

pub fn is_meta(c: char) -> bool {
    METAS.contains(&c)
}

#[derive(Clone, Debug, PartialEq, Eq, Hash, PartialOrd, Ord)]
pub enum ClassItem {
    Ch(char),
    Range(char, char),
}

#[derive(Clone, Debug, PartialEq, Eq, Hash, PartialOrd, Ord)]
pub enum Bounds {
    /// `<e>`: zero or more
    None,
    /// `<e:>`: one or more
    Colon,
    /// `<e:n>`
    Exact(String),
    /// `<e:n,>` / `<e:n,m>`
    Range(String, Option<String>),
}

impl Bounds {
    /// (lower, upper) if every number fits the machine word.
    pub fn values(&self) -> Option<(usize, Option<usize>)> {
        match self {
            Bounds::None => Some((0, None)),
            Bounds::Colon => Some((1, None)),
            Bounds::Exact(n) => n.parse::<usize>().ok().map(|n| (n, Some(n))),
            Bounds::Range(lo, hi) => {
                let lo = lo.parse::<usize>().ok()?;
                match hi {
                    None => Some((lo, None)),
                    Some(hi) => hi.parse::<usize>().ok().map(|hi| (lo, Some(hi))),
                }
            },
        }
    }

    pub fn text(&self) -> String {
        match self {
            Bounds::None => String::new(),
            Bounds::Colon => ":".into(),
            Bounds::Exact(n) => format!(":{}", n),
            Bounds::Range(lo, None) => format!(":{},", lo),
            Bounds::Range(lo, Some(hi)) => format!(":{},{}", lo, hi),
        }
    }
}

#[derive(Clone, Debug, PartialEq, Eq, Hash, PartialOrd, Ord)]
pub enum Kind {
    Lit(String),
    Sep,
    One,
    /// `*` (false) or `$` (true = lazy)
    Zom(bool),
    /// tree wildcard with the separators it absorbs
    Tree { lead: bool, trail: bool },
    Class { neg: bool, items: Vec<ClassItem> },
    /// a flag group; each toggle is `true` for `i` and `false` for `-i`
    Flag(Vec<bool>),
    Alt(Vec<Vec<Node>>),
    Rep { body: Vec<Node>, bounds: Bounds },
}

#[derive(Clone, Debug, PartialEq, Eq, Hash, PartialOrd, Ord)]
pub struct Node {
    pub kind: Kind,
    /// byte span (start, len) in the printed / parsed expression; a tree's span includes its
    /// absorbed separators; flags are nodes of their own.
    pub span: (usize, usize),
}

impl Node {
    pub fn new(kind: Kind) -> Node {
        Node { kind, span: (0, 0) }
    }
    pub fn is_flag(&self) -> bool {
        matches!(self.kind, Kind::Flag(_))
    }
    pub fn is_branch(&self) -> bool {
        matches!(self.kind, Kind::Alt(_) | Kind::Rep { .. })
    }
    pub fn is_tree(&self) -> bool {
        matches!(self.kind, Kind::Tree { .. })
    }
    pub fn is_boundary(&self) -> bool {
        matches!(self.kind, Kind::Sep | Kind::Tree { .. })
    }
    pub fn is_zom(&self) -> bool {
        matches!(self.kind, Kind::Zom(_))
    }
    pub fn is_capturing(&self) -> bool {
        matches!(
            self.kind,
            Kind::One | Kind::Zom(_) | Kind::Tree { .. } | Kind::Class { .. } | Kind::Alt(_) | Kind::Rep { .. }
        )
    }
}

pub type Seq = Vec<Node>;

pub fn size(seq: &[Node]) -> usize {
    seq.iter()
        .map(|n| match &n.kind {
            Kind::Alt(bs) => 1 + bs.iter().map(|b| size(b)).sum::<usize>(),
            Kind::Rep { body, .. } => 1 + size(body),
            _ => 1,
        })
        .sum()
}

pub fn depth(seq: &[Node]) -> usize {
    seq.iter()
        .map(|n| match &n.kind {
            Kind::Alt(bs) => 1 + bs.iter().map(|b| depth(b)).max().unwrap_or(0),
            Kind::Rep { body, .. } => 1 + depth(body),
            _ => 0,
        })
        .max()
        .unwrap_or(0)
}

pub fn escape_literal(text: &str, out: &mut String) {
    for c in text.chars() {
        if is_meta(c) {
            out.push('\\');
        }
        out.push(c);
    }
}

fn escape_class_char(c: char, out: &mut String) {
    if matches!(c, '[' | ']' | '-') {
        out.push('\\');
    }
    out.push(c);
}

/// Prints a sequence and assigns spans. Returns the text.
pub fn print(seq: &mut [Node]) -> String {
    let mut out = String::new();
    print_into(seq, &mut out);
    out
}

pub fn to_text(seq: &[Node]) -> String {
    let mut seq = seq.to_vec();
    print(&mut seq)
}

fn print_into(seq: &mut [Node], out: &mut String) {
    for node in seq.iter_mut() {
        let start = out.len();
        match &mut node.kind {
            Kind::Lit(text) => escape_literal(text, out),
            Kind::Sep => out.push('/'),
            Kind::One => out.push('?'),
            Kind::Zom(lazy) => out.push(if *lazy { '$' } else { '*' }),
            Kind::Tree { lead, trail } => {
                if *lead {
                    out.push('/');
                }
                out.push_str("**");
                if *trail {
                    out.push('/');
                }
            },
            Kind::Class { neg, items } => {
                out.push('[');
                if *neg {
                    out.push('!');
                }
                for item in items.iter() {
                    match item {
                        ClassItem::Ch(c) => escape_class_char(*c, out),
                        ClassItem::Range(a, b) => {
                            escape_class_char(*a, out);
                            out.push('-');
                            escape_class_char(*b, out);
                        },
                    }
                }
                out.push(']');
            },
            Kind::Flag(toggles) => {
                out.push_str("(?");
                for t in toggles.iter() {
                    out.push_str(if *t { "i" } else { "-i" });
                }
                out.push(')');
            },
            Kind::Alt(branches) => {
                out.push('{');
                let n = branches.len();
                for (i, b) in branches.iter_mut().enumerate() {
                    print_into(b, out);
                    if i + 1 < n {
                        out.push(',');
                    }
                }
                out.push('}');
            },
            Kind::Rep { body, bounds } => {
                out.push('<');
                print_into(body, out);
                let _ = write!(out, "{}", bounds.text());
                out.push('>');
            },
        }
        node.span = (start, out.len() - start);
    }
}

/// Is the sequence printable such that the print parses back to the same AST? (canonical form)
pub fn is_canonical(seq: &[Node]) -> bool {
    canonical_in(seq)
}

fn canonical_in(seq: &[Node]) -> bool {
    if seq.is_empty() {
        return false;
    }
    // no trailing flags
    if seq.last().unwrap().is_flag() {
        return false;
    }
    let n = seq.len();
    // index of first non-flag token
    for (i, node) in seq.iter().enumerate() {
        match &node.kind {
            Kind::Lit(t) => {
                if t.is_empty() || t.contains('/') || t.contains('\\') {
                    return false;
                }
                if i + 1 < n && matches!(seq[i + 1].kind, Kind::Lit(_)) {
                    return false;
                }
            },
            Kind::Zom(lazy) => {
                // `*` directly followed by `*` prints as a tree wildcard
                if !*lazy && i + 1 < n && matches!(seq[i + 1].kind, Kind::Zom(false)) {
                    return false;
                }
                // `*` directly followed by an unled tree / after: not printable either
                if i + 1 < n && matches!(seq[i + 1].kind, Kind::Tree { lead: false, .. }) {
                    return false;
                }
            },
            Kind::Tree { lead, trail } => {
                if !*lead {
                    // must start the sub-expression (flags may precede in the documented syntax)
                    if seq[..i].iter().any(|n| !n.is_flag()) {
                        return false;
                    }
                }
                if !*trail && i + 1 != n {
                    return false;
                }
                // `**` followed directly by `*` would be `***`
                if !*trail && i + 1 < n {
                    return false;
                }
                // a trail-less tree followed by Sep is the same text as a trailed tree
                if *trail && i + 1 < n {
                    // `**/` followed by `/` is fine textually (`**//`): parses as tree + sep
                }
                // preceded by `*`/`$` unled: `***`
                if !*lead && i > 0 && seq[i - 1].is_zom() {
                    return false;
                }
            },
            Kind::Sep => {
                // `/` followed by an unled tree is the text of a led tree
                if i + 1 < n && matches!(seq[i + 1].kind, Kind::Tree { lead: false, .. }) {
                    return false;
                }
                // `/` + flags + `**`: wax parses flags between `/` and `**`; keep out
                let mut j = i + 1;
                while j < n && seq[j].is_flag() {
                    j += 1;
                }
                if j > i + 1 && j < n && matches!(seq[j].kind, Kind::Tree { lead: false, .. }) {
                    return false;
                }
            },
            Kind::Class { neg, items } => {
                if items.is_empty() {
                    return false;
                }
                if !*neg {
                    if let ClassItem::Ch('!') | ClassItem::Range('!', _) = items[0] {
                        return false;
                    }
                }
                for it in items {
                    let bad = |c: char| c == '\\';
                    match it {
                        ClassItem::Ch(c) => {
                            if bad(*c) {
                                return false;
                            }
                        },
                        ClassItem::Range(a, b) => {
                            if bad(*a) || bad(*b) {
                                return false;
                            }
                        },
                    }
                }
            },
            Kind::Flag(t) => {
                if t.is_empty() {
                    return false;
                }
            },
            Kind::One => {},
            Kind::Alt(bs) => {
                if bs.is_empty() || !bs.iter().all(|b| canonical_in(b)) {
                    return false;
                }
            },
            Kind::Rep { body, .. } => {
                if !canonical_in(body) {
                    return false;
                }
            },
        }
        // a tree with a trailing separator followed (after flags) by an unled tree etc. is
        // covered by the tree rule above. A trailed tree followed by Sep is `**//`: fine.
        // flags directly between `**` and its absorbed `/` cannot be expressed in this AST.
        if let Kind::Tree { trail: false, .. } = node.kind {
            if i + 1 != n {
                return false;
            }
        }
    }
    // zom followed by flags then zom: `*(?i)*` printable; ok.
    // Tree{trail:true} at the end followed by nothing is fine (`a/**/`).
    true
}

// ---------------------------------------------------------------------------------------------
// Parser
// ---------------------------------------------------------------------------------------------

#[derive(Clone, Debug, PartialEq, Eq)]
pub struct SyntaxError {
    pub at: usize,
    pub what: &'static str,
}

struct P<'a> {
    s: &'a str,
    b: &'a [u8],
    i: usize,
}

#[derive(Clone, Copy, PartialEq, Eq)]
enum Term {
    Eof,
    Alt, // `,` or `}`
    Rep, // `:` or `>`
}

impl<'a> P<'a> {
    fn peek(&self) -> Option<char> {
        self.s[self.i..].chars().next()
    }
    fn at_term(&self, term: Term) -> bool {
        match term {
            Term::Eof => self.i >= self.b.len(),
            Term::Alt => matches!(self.peek(), Some(',') | Some('}')),
            Term::Rep => matches!(self.peek(), Some(':') | Some('>')),
        }
    }
    fn starts(&self, t: &str) -> bool {
        self.s[self.i..].starts_with(t)
    }

    fn flags(&mut self) -> Result<Option<Node>, SyntaxError> {
        if !self.starts("(?") {
            return Ok(None);
        }
        let start = self.i;
        self.i += 2;
        let mut toggles = vec![];
        loop {
            if self.starts("-i") {
                toggles.push(false);
                self.i += 2;
            }
            else if self.starts("i") {
                toggles.push(true);
                self.i += 1;
            }
            else {
                break;
            }
        }
        if toggles.is_empty() {
            return Err(SyntaxError { at: self.i, what: "empty flag group" });
        }
        if !self.starts(")") {
            return Err(SyntaxError { at: self.i, what: "unterminated flag group" });
        }
        self.i += 1;
        Ok(Some(Node { kind: Kind::Flag(toggles), span: (start, self.i - start) }))
    }

    fn seq(&mut self, term: Term) -> Result<Seq, SyntaxError> {
        let mut out: Seq = vec![];
        loop {
            // flags
            while let Some(f) = self.flags()? {
                out.push(f);
            }
            if self.at_term(term) {
                break;
            }
            if self.i >= self.b.len() {
                return Err(SyntaxError { at: self.i, what: "unexpected end" });
            }
            let start = self.i;
            let c = self.peek().unwrap();
            let has_token_before = out.iter().any(|n| !n.is_flag());
            match c {
                '/' => {
                    // tree with leading separator? `/` flags* `**`: flags between are outside the
                    // documented syntax -> error
                    if self.starts("/**") {
                        self.i += 3;
                        let trail = self.tree_tail(term)?;
                        out.push(Node { kind: Kind::Tree { lead: true, trail }, span: (start, self.i - start) });
                    }
                    else {
                        self.i += 1;
                        out.push(Node { kind: Kind::Sep, span: (start, 1) });
                    }
                },
                '*' | '$' => {
                    if self.starts("**") {
                        if has_token_before {
                            return Err(SyntaxError { at: self.i, what: "tree wildcard not at a boundary" });
                        }
                        self.i += 2;
                        let trail = self.tree_tail(term)?;
                        out.push(Node { kind: Kind::Tree { lead: false, trail }, span: (start, self.i - start) });
                    }
                    else {
                        self.i += 1;
                        out.push(Node { kind: Kind::Zom(c == '$'), span: (start, 1) });
                    }
                },
                '?' => {
                    self.i += 1;
                    out.push(Node { kind: Kind::One, span: (start, 1) });
                },
                '[' => {
                    let node = self.class()?;
                    out.push(node);
                },
                '{' => {
                    self.i += 1;
                    let mut branches = vec![];
                    loop {
                        let b = self.seq(Term::Alt)?;
                        if b.iter().all(|n| n.is_flag()) {
                            return Err(SyntaxError { at: self.i, what: "empty alternative" });
                        }
                        branches.push(b);
                        match self.peek() {
                            Some(',') => {
                                self.i += 1;
                            },
                            Some('}') => {
                                self.i += 1;
                                break;
                            },
                            _ => return Err(SyntaxError { at: self.i, what: "unterminated alternation" }),
                        }
                    }
                    out.push(Node { kind: Kind::Alt(branches), span: (start, self.i - start) });
                },
                '<' => {
                    self.i += 1;
                    let body = self.seq(Term::Rep)?;
                    if body.iter().all(|n| n.is_flag()) {
                        return Err(SyntaxError { at: self.i, what: "empty repetition" });
                    }
                    let bounds = self.bounds()?;
                    if !self.starts(">") {
                        return Err(SyntaxError { at: self.i, what: "unterminated repetition" });
                    }
                    self.i += 1;
                    out.push(Node { kind: Kind::Rep { body, bounds }, span: (start, self.i - start) });
                },
                ':' | '>' | '(' | ')' | ']' | '}' | ',' => {
                    return Err(SyntaxError { at: self.i, what: "unexpected meta character" });
                },
                _ => {
                    // literal
                    let mut text = String::new();
                    while let Some(c) = self.peek() {
                        if c == '\\' {
                            let rest = &self.s[self.i + 1..];
                            match rest.chars().next() {
                                Some(m) if is_meta(m) => {
                                    text.push(m);
                                    self.i += 1 + m.len_utf8();
                                },
                                _ => return Err(SyntaxError { at: self.i, what: "bad escape" }),
                            }
                        }
                        else if c == '/' || is_meta(c) {
                            break;
                        }
                        else {
                            text.push(c);
                            self.i += c.len_utf8();
                        }
                    }
                    if text.is_empty() {
                        return Err(SyntaxError { at: self.i, what: "empty literal" });
                    }
                    out.push(Node { kind: Kind::Lit(text), span: (start, self.i - start) });
                },
            }
        }
        // trailing flags are not allowed
        if out.last().map_or(false, |n| n.is_flag()) {
            return Err(SyntaxError { at: self.i, what: "trailing flags" });
        }
        Ok(out)
    }

    /// After `**`: either an absorbed `/` or the end of the sub-expression.
    fn tree_tail(&mut self, term: Term) -> Result<bool, SyntaxError> {
        if self.starts("/") {
            self.i += 1;
            Ok(true)
        }
        else if self.at_term(term) {
            Ok(false)
        }
        else {
            Err(SyntaxError { at: self.i, what: "tree wildcard not delimited" })
        }
    }

    fn class_char(&mut self) -> Result<Option<char>, SyntaxError> {
        match self.peek() {
            None => Err(SyntaxError { at: self.i, what: "unterminated class" }),
            Some('\\') => {
                let rest = &self.s[self.i + 1..];
                match rest.chars().next() {
                    Some(m @ ('[' | ']' | '-')) => {
                        self.i += 2;
                        Ok(Some(m))
                    },
                    _ => Err(SyntaxError { at: self.i, what: "bad class escape" }),
                }
            },
            Some('[') | Some(']') | Some('-') => Ok(None),
            Some(c) => {
                self.i += c.len_utf8();
                Ok(Some(c))
            },
        }
    }

    fn class(&mut self) -> Result<Node, SyntaxError> {
        let start = self.i;
        self.i += 1;
        let mut neg = false;
        if self.starts("!") {
            neg = true;
            self.i += 1;
        }
        let mut items = vec![];
        loop {
            let save = self.i;
            match self.class_char()? {
                None => {
                    self.i = save;
                    break;
                },
                Some(a) => {
                    if self.starts("-") {
                        let save2 = self.i;
                        self.i += 1;
                        match self.class_char() {
                            Ok(Some(b)) => items.push(ClassItem::Range(a, b)),
                            _ => {
                                self.i = save2;
                                items.push(ClassItem::Ch(a));
                            },
                        }
                    }
                    else {
                        items.push(ClassItem::Ch(a));
                    }
                },
            }
        }
        if items.is_empty() {
            return Err(SyntaxError { at: self.i, what: "empty class" });
        }
        if !self.starts("]") {
            return Err(SyntaxError { at: self.i, what: "unterminated class" });
        }
        self.i += 1;
        Ok(Node { kind: Kind::Class { neg, items }, span: (start, self.i - start) })
    }

    fn digits(&mut self) -> Option<String> {
        let start = self.i;
        while self.i < self.b.len() && self.b[self.i].is_ascii_digit() {
            self.i += 1;
        }
        if self.i > start {
            Some(self.s[start..self.i].to_string())
        }
        else {
            None
        }
    }

    fn bounds(&mut self) -> Result<Bounds, SyntaxError> {
        if !self.starts(":") {
            return Ok(Bounds::None);
        }
        self.i += 1;
        match self.digits() {
            None => Ok(Bounds::Colon),
            Some(lo) => {
                if self.starts(",") {
                    self.i += 1;
                    let hi = self.digits();
                    Ok(Bounds::Range(lo, hi))
                }
                else {
                    Ok(Bounds::Exact(lo))
                }
            },
        }
    }
}

/// Parses an expression of the documented syntax. The empty expression is the empty sequence.
pub fn parse(text: &str) -> Result<Seq, SyntaxError> {
    if text.is_empty() {
        return Ok(vec![]);
    }
    let mut p = P { s: text, b: text.as_bytes(), i: 0 };
    let seq = p.seq(Term::Eof)?;
    if p.i != text.len() {
        return Err(SyntaxError { at: p.i, what: "trailing input" });
    }
    if seq.is_empty() {
        return Err(SyntaxError { at: 0, what: "empty" });
    }
    Ok(seq)
}

/// Strips spans (for structural comparison).
pub fn strip(seq: &[Node]) -> Seq {
    seq.iter()
        .map(|n| Node {
            span: (0, 0),
            kind: match &n.kind {
                Kind::Alt(bs) => Kind::Alt(bs.iter().map(|b| strip(b)).collect()),
                Kind::Rep { body, bounds } => Kind::Rep { body: strip(body), bounds: bounds.clone() },
                k => k.clone(),
            },
        })
        .collect()
}

#[cfg(test)]
mod tests {
    use super::*;

    #[test]
    fn roundtrip() {
        for t in [
            "a", "a/b", "**/a", "/**/a", "a/**", "a/**/b", "**", "{a,b}", "<a:1,2>", "<a/:>",
            "(?i)a(?-i)b", "[a-c]", "[!a\\-]", "a\\*b", "{a,{b,<c:2>}}x", "*$", "a{**/b,c}",
            "<a*/>[!.]*", "(?i-i)a", "/", "//", "a/**/",
        ] {
            let ast = parse(t).unwrap_or_else(|e| panic!("{}: {:?}", t, e));
            assert_eq!(to_text(&ast), t);
            let mut again = strip(&ast);
            let text = print(&mut again);
            assert_eq!(text, t);
            assert_eq!(again, ast, "{}", t);
        }
        for t in ["a**", "**a", "{a", "<a", "[a", "(?x)a", "a(?i)", "{}", "<>", "a\\", "a\\b", "[]", "{a,}", "***"] {
            assert!(parse(t).is_err(), "{}", t);
        }
    }
}
