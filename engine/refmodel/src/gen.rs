//! Program space: bounded-size enumeration of the documented expression grammar (DESIGN §2.1).

use crate::syntax::*;

#[derive(Clone, Debug)]
pub struct GenCfg {
    /// non-tree leaves (flags included)
    pub leaves: Vec<Kind>,
    pub trees: bool,
    pub bounds: Vec<Bounds>,
    pub max_alt: usize,
    pub alts: bool,
    pub reps: bool,
}

pub fn lit(s: &str) -> Kind {
    Kind::Lit(s.to_string())
}
pub fn class(neg: bool, items: &[ClassItem]) -> Kind {
    Kind::Class { neg, items: items.to_vec() }
}

pub fn bounds_full() -> Vec<Bounds> {
    vec![
        Bounds::None,
        Bounds::Colon,
        Bounds::Exact("0".into()),
        Bounds::Exact("1".into()),
        Bounds::Exact("2".into()),
        Bounds::Range("0".into(), Some("1".into())),
        Bounds::Range("1".into(), Some("2".into())),
        Bounds::Range("2".into(), Some("3".into())),
        Bounds::Range("0".into(), Some("2".into())),
    ]
}

impl GenCfg {
    /// the 12-kind core leaf alphabet of the shape pass
    pub fn core() -> GenCfg {
        GenCfg {
            leaves: vec![
                lit("a"),
                lit("b"),
                lit("."),
                Kind::Sep,
                Kind::One,
                Kind::Zom(false),
                Kind::Zom(true),
                class(false, &[ClassItem::Ch('a')]),
                class(true, &[ClassItem::Ch('a')]),
                Kind::Flag(vec![true]),
                Kind::Flag(vec![false]),
            ],
            trees: true,
            bounds: bounds_full(),
            max_alt: 3,
            alts: true,
            reps: true,
        }
    }

    /// reduced alphabet for sizes 6-7: {a, /, *, **, [!a], (?i), {..}, <..:1,2>}
    pub fn reduced() -> GenCfg {
        GenCfg {
            leaves: vec![
                lit("a"),
                Kind::Sep,
                Kind::Zom(false),
                class(true, &[ClassItem::Ch('a')]),
                Kind::Flag(vec![true]),
            ],
            trees: true,
            bounds: vec![Bounds::Range("1".into(), Some("2".into()))],
            max_alt: 2,
            alts: true,
            reps: true,
        }
    }

    /// alphabet of the rule checker for sizes up to 7-8: the three token classes the rules tell
    /// apart (boundary `/` and `**`, zero-or-more `*`, anything else `a`), alternations of two
    /// branches, and repetitions that are optional and repeat (`<e>`) or mandatory and repeat
    /// (`<e:1,>`)
    pub fn rules() -> GenCfg {
        GenCfg {
            leaves: vec![lit("a"), Kind::Sep, Kind::Zom(false)],
            trees: true,
            bounds: vec![Bounds::None, Bounds::Range("1".into(), None)],
            max_alt: 2,
            alts: true,
            reps: true,
        }
    }

    /// boundary alphabet for still larger sizes: literal, separator, alternations of two branches
    /// and the two repeating repetitions
    pub fn boundaries() -> GenCfg {
        GenCfg {
            leaves: vec![lit("a"), Kind::Sep],
            trees: false,
            bounds: vec![Bounds::None, Bounds::Range("1".into(), None)],
            max_alt: 2,
            alts: true,
            reps: true,
        }
    }

    /// alphabet for file-system globs: {a, b, .a, /, *, ?, **, [!a], {,}, <:1,2>, <>}
    pub fn fsglobs() -> GenCfg {
        GenCfg {
            leaves: vec![
                lit("a"),
                lit("b"),
                lit(".a"),
                Kind::Sep,
                Kind::One,
                Kind::Zom(false),
                class(true, &[ClassItem::Ch('a')]),
            ],
            trees: true,
            bounds: vec![Bounds::Range("1".into(), Some("2".into())), Bounds::None],
            max_alt: 2,
            alts: true,
            reps: true,
        }
    }
}

pub struct Gen {
    pub cfg: GenCfg,
    pub max_size: usize,
    /// items[k] = all single items (leaf or branch) of size k (trees excluded: positional)
    items: Vec<Vec<Node>>,
    /// all[k] = all canonical sub-expression sequences of size exactly k
    all: Vec<Vec<Seq>>,
}

fn tree_forms() -> [Kind; 4] {
    [
        Kind::Tree { lead: false, trail: false },
        Kind::Tree { lead: false, trail: true },
        Kind::Tree { lead: true, trail: true },
        Kind::Tree { lead: true, trail: false },
    ]
}

impl Gen {
    /// Prepares memo tables so that sequences up to `max_size` can be enumerated. Branch bodies
    /// need sequences up to `max_size - 1`, which are stored.
    pub fn new(cfg: GenCfg, max_size: usize) -> Gen {
        let mut g = Gen { cfg, max_size, items: vec![vec![]], all: vec![vec![]] };
        for k in 1..=max_size {
            // items of size k
            let mut items = vec![];
            if k == 1 {
                for l in &g.cfg.leaves {
                    items.push(Node::new(l.clone()));
                }
            }
            else {
                if g.cfg.alts {
                    // alternations: branch sizes sum to k-1
                    for nb in 1..=g.cfg.max_alt {
                        let mut sizes = vec![0usize; nb];
                        g.alt_sizes(k - 1, 0, &mut sizes, &mut items);
                    }
                }
                if g.cfg.reps {
                    for body in &g.all[k - 1] {
                        for b in &g.cfg.bounds {
                            items.push(Node::new(Kind::Rep { body: body.clone(), bounds: b.clone() }));
                        }
                    }
                }
            }
            if k == max_size && k > 1 {
                // the largest items can only occur as the sole item of a sequence: they are
                // streamed by `for_each_top_item` instead of being stored
                items = vec![];
            }
            g.items.push(items);
            if k < max_size {
                // sequences of size k are needed as branch bodies for larger items
                let mut seqs = vec![];
                g.for_each_exact(k, &mut |s: &Seq| seqs.push(s.clone()));
                g.all.push(seqs);
            }
        }
        g
    }

    fn alt_sizes(&self, remaining: usize, idx: usize, sizes: &mut Vec<usize>, out: &mut Vec<Node>) {
        let nb = sizes.len();
        if idx == nb - 1 {
            if remaining >= 1 {
                sizes[idx] = remaining;
                // cartesian product of all[sizes[i]]
                let mut branches: Vec<Seq> = Vec::with_capacity(nb);
                self.alt_product(sizes, 0, &mut branches, out);
            }
            return;
        }
        let left = nb - idx - 1;
        for s in 1..=remaining.saturating_sub(left) {
            sizes[idx] = s;
            self.alt_sizes(remaining - s, idx + 1, sizes, out);
        }
    }

    fn alt_product(&self, sizes: &[usize], idx: usize, branches: &mut Vec<Seq>, out: &mut Vec<Node>) {
        if idx == sizes.len() {
            out.push(Node::new(Kind::Alt(branches.clone())));
            return;
        }
        for b in &self.all[sizes[idx]] {
            branches.push(b.clone());
            self.alt_product(sizes, idx + 1, branches, out);
            branches.pop();
        }
    }

    /// Number of independent chunks `for_each_top_item` can be split into.
    pub fn top_item_chunks(&self) -> usize {
        if self.max_size < 2 {
            0
        }
        else {
            self.all[self.max_size - 1].len().max(1)
        }
    }

    /// Streams the sequences that consist of ONE item of the maximal size (an alternation or a
    /// repetition): chunk `i` covers the items whose first branch / body is
    /// `all[max_size - 1][i]`, plus (in chunk 0) the alternations with more than one branch.
    pub fn for_each_top_item(&self, chunk: usize, f: &mut dyn FnMut(&Seq)) {
        let k = self.max_size;
        if k < 2 {
            return;
        }
        let emit = |node: Node, f: &mut dyn FnMut(&Seq)| {
            let s = vec![node];
            if is_canonical(&s) {
                f(&s);
            }
        };
        if let Some(body) = self.all[k - 1].get(chunk) {
            if self.cfg.alts {
                emit(Node::new(Kind::Alt(vec![body.clone()])), f);
            }
            if self.cfg.reps {
                for b in &self.cfg.bounds {
                    emit(Node::new(Kind::Rep { body: body.clone(), bounds: b.clone() }), f);
                }
            }
        }
        if chunk == 0 && self.cfg.alts {
            for nb in 2..=self.cfg.max_alt {
                let mut items = vec![];
                let mut sizes = vec![0usize; nb];
                self.alt_sizes(k - 1, 0, &mut sizes, &mut items);
                for it in items {
                    emit(it, f);
                }
            }
        }
    }

    /// Calls `f` for every canonical sequence of size exactly `size`.
    pub fn for_each_exact(&self, size: usize, f: &mut dyn FnMut(&Seq)) {
        let mut cur: Seq = vec![];
        self.extend(size, &mut cur, f);
        if size == self.max_size {
            for c in 0..self.top_item_chunks() {
                self.for_each_top_item(c, f);
            }
        }
    }

    /// All possible first items (with their size) for sequences of total size `size`.
    pub fn firsts(&self, size: usize) -> Vec<Node> {
        let mut v = vec![];
        for k in 1..=size {
            for it in &self.items[k] {
                v.push(it.clone());
            }
            if k == 1 && self.cfg.trees {
                for t in tree_forms() {
                    v.push(Node::new(t));
                }
            }
        }
        v
    }

    /// Calls `f` for every canonical sequence of size exactly `size` that starts with `first`.
    pub fn for_each_from(&self, size: usize, first: &Node, f: &mut dyn FnMut(&Seq)) {
        let fsz = crate::syntax::size(std::slice::from_ref(first));
        if fsz > size {
            return;
        }
        let mut cur: Seq = vec![first.clone()];
        if !Self::prefix_ok(&cur) {
            return;
        }
        if fsz == size {
            if is_canonical(&cur) {
                f(&cur);
            }
            return;
        }
        self.extend(size - fsz, &mut cur, f);
    }

    /// Work items for parallel enumeration: prefixes of one or two items. A prefix whose size
    /// equals `size` is a complete sequence; a two-item prefix of smaller size is extended.
    pub fn tasks(&self, size: usize) -> Vec<Seq> {
        let mut out = vec![];
        let choices = |budget: usize| -> Vec<Node> {
            let mut v = vec![];
            for k in 1..=budget {
                for it in &self.items[k] {
                    v.push(it.clone());
                }
                if k == 1 && self.cfg.trees {
                    for t in tree_forms() {
                        v.push(Node::new(t));
                    }
                }
            }
            v
        };
        for first in choices(size) {
            let fsz = crate::syntax::size(std::slice::from_ref(&first));
            let cur = vec![first];
            if !Self::prefix_ok(&cur) {
                continue;
            }
            if fsz == size {
                out.push(cur);
                continue;
            }
            for second in choices(size - fsz) {
                let mut cur2 = cur.clone();
                cur2.push(second);
                if Self::prefix_ok(&cur2) {
                    out.push(cur2);
                }
            }
        }
        out
    }

    /// Calls `f` for every canonical sequence of size exactly `size` that starts with `prefix`
    /// (a work item of `tasks`).
    pub fn for_each_with_prefix(&self, size: usize, prefix: &Seq, f: &mut dyn FnMut(&Seq)) {
        let psz = crate::syntax::size(prefix);
        let mut cur = prefix.clone();
        if psz == size {
            if is_canonical(&cur) {
                f(&cur);
            }
            return;
        }
        self.extend(size - psz, &mut cur, f);
    }

    /// cheap pruning of prefixes that can never become canonical
    fn prefix_ok(cur: &[Node]) -> bool {
        let n = cur.len();
        let last = &cur[n - 1];
        if let Kind::Tree { lead: false, .. } = last.kind {
            if cur[..n - 1].iter().any(|x| !x.is_flag()) {
                return false;
            }
        }
        if n >= 2 {
            let prev = &cur[n - 2];
            if let Kind::Tree { trail: false, .. } = prev.kind {
                return false;
            }
            if matches!(prev.kind, Kind::Lit(_)) && matches!(last.kind, Kind::Lit(_)) {
                return false;
            }
            if matches!(prev.kind, Kind::Zom(false)) && matches!(last.kind, Kind::Zom(false)) {
                return false;
            }
            if matches!(prev.kind, Kind::Sep) && matches!(last.kind, Kind::Tree { lead: false, .. }) {
                return false;
            }
        }
        true
    }

    fn extend(&self, remaining: usize, cur: &mut Seq, f: &mut dyn FnMut(&Seq)) {
        if remaining == 0 {
            if is_canonical(cur) {
                f(cur);
            }
            return;
        }
        for k in 1..=remaining {
            for it in &self.items[k] {
                cur.push(it.clone());
                if Self::prefix_ok(cur) {
                    self.extend(remaining - k, cur, f);
                }
                cur.pop();
            }
            if k == 1 && self.cfg.trees {
                for t in tree_forms() {
                    cur.push(Node::new(t));
                    if Self::prefix_ok(cur) {
                        self.extend(remaining - 1, cur, f);
                    }
                    cur.pop();
                }
            }
        }
    }
}

/// Letters are interchangeable: keep only expressions whose plain letters appear in
/// first-occurrence order (a before b).
pub fn is_letter_canonical(seq: &[Node]) -> bool {
    fn walk(seq: &[Node], seen_a: &mut bool) -> bool {
        for n in seq {
            match &n.kind {
                Kind::Lit(t) => {
                    for c in t.chars() {
                        if c == 'a' {
                            *seen_a = true;
                        }
                        else if c == 'b' && !*seen_a {
                            return false;
                        }
                    }
                },
                Kind::Class { items, .. } => {
                    for it in items {
                        let cs: Vec<char> = match it {
                            ClassItem::Ch(c) => vec![*c],
                            ClassItem::Range(a, b) => vec![*a, *b],
                        };
                        for c in cs {
                            if c == 'a' {
                                *seen_a = true;
                            }
                            else if c == 'b' && !*seen_a {
                                return false;
                            }
                        }
                    }
                },
                Kind::Alt(bs) => {
                    for b in bs {
                        if !walk(b, seen_a) {
                            return false;
                        }
                    }
                },
                Kind::Rep { body, .. } => {
                    if !walk(body, seen_a) {
                        return false;
                    }
                },
                _ => {},
            }
        }
        true
    }
    let mut seen = false;
    walk(seq, &mut seen)
}

// ---------------------------------------------------------------------------------------------
// Substitution pass
// ---------------------------------------------------------------------------------------------

pub fn extended_literals() -> Vec<String> {
    [
        "A", "..", "1", "é", "金", "ab", "+", "|", "^", "#", "&", "~", " ", "*", "?", "[", "]", "{", "}",
        "(", ")", "-", "!", "k", "\u{212A}", "ß", "\n", "\u{0}", "\u{10FFFF}", "İ", ",", ":", "$", "<", ">",
        "Σ", "ς",
    ]
    .iter()
    .map(|s| s.to_string())
    .collect()
}

pub fn extended_classes() -> Vec<Kind> {
    use ClassItem::*;
    vec![
        class(false, &[Ch('a'), Ch('b')]),
        class(false, &[Range('a', 'b')]),
        class(true, &[Range('a', 'b')]),
        class(false, &[Ch('/')]),
        class(false, &[Ch('a'), Ch('/')]),
        class(true, &[Ch('/')]),
        class(false, &[Ch('-')]),
        class(false, &[Ch(']')]),
        class(false, &[Ch('[')]),
        class(false, &[Ch('^')]),
        class(false, &[Ch('&'), Ch('&')]),
        class(false, &[Ch('A')]),
        class(true, &[Ch('A')]),
        class(false, &[Ch('k')]),
        class(false, &[Ch('é')]),
        class(false, &[Range('金', '金')]),
        class(false, &[Range('.', '0')]),
        class(false, &[Ch('\n')]),
        class(true, &[Ch('\n')]),
        class(false, &[Range('a', 'a')]),
        class(false, &[Ch('a'), Ch('a')]),
        class(false, &[Ch('*')]),
        class(false, &[Ch('~'), Ch('-'), Ch('~')]),
        class(false, &[Range('\u{0}', '\u{10FFFF}')]),
        class(true, &[Range('\u{0}', '\u{10FFFF}')]),
    ]
}

#[derive(Clone, Copy, PartialEq, Eq)]
enum SlotKind {
    Lit,
    Class,
}

fn collect_slots(seq: &[Node], path: &mut Vec<usize>, out: &mut Vec<(Vec<usize>, SlotKind)>) {
    for (i, n) in seq.iter().enumerate() {
        path.push(i);
        match &n.kind {
            Kind::Lit(_) => out.push((path.clone(), SlotKind::Lit)),
            Kind::Class { .. } => out.push((path.clone(), SlotKind::Class)),
            Kind::Alt(bs) => {
                for (j, b) in bs.iter().enumerate() {
                    path.push(j);
                    collect_slots(b, path, out);
                    path.pop();
                }
            },
            Kind::Rep { body, .. } => {
                path.push(0);
                collect_slots(body, path, out);
                path.pop();
            },
            _ => {},
        }
        path.pop();
    }
}

fn node_at<'a>(seq: &'a mut [Node], path: &[usize]) -> &'a mut Node {
    let n = &mut seq[path[0]];
    if path.len() == 1 {
        return n;
    }
    match &mut n.kind {
        Kind::Alt(bs) => node_at(&mut bs[path[1]], &path[2..]),
        Kind::Rep { body, .. } => node_at(body, &path[2..]),
        _ => unreachable!(),
    }
}

/// All single-slot and pair-of-slot substitutions of extended literals/classes into `shape`.
pub fn substitutions(shape: &Seq, pairs: bool, f: &mut dyn FnMut(&Seq)) {
    let mut slots = vec![];
    collect_slots(shape, &mut vec![], &mut slots);
    let lits = extended_literals();
    let classes = extended_classes();
    let options = |k: SlotKind| -> Vec<Kind> {
        match k {
            SlotKind::Lit => lits.iter().map(|s| Kind::Lit(s.clone())).collect(),
            SlotKind::Class => classes.clone(),
        }
    };
    for (i, (p, k)) in slots.iter().enumerate() {
        for o in options(*k) {
            let mut s = shape.clone();
            node_at(&mut s, p).kind = o.clone();
            if is_canonical(&s) {
                f(&s);
            }
            if pairs {
                for (p2, k2) in slots.iter().skip(i + 1) {
                    for o2 in options(*k2) {
                        let mut s2 = s.clone();
                        node_at(&mut s2, p2).kind = o2;
                        if is_canonical(&s2) {
                            f(&s2);
                        }
                    }
                }
            }
        }
    }
}

#[cfg(test)]
mod tests {
    use super::*;

    #[test]
    fn counts() {
        let g = Gen::new(GenCfg::core(), 4);
        let mut total = 0usize;
        for k in 1..=4 {
            let mut n = 0usize;
            g.for_each_exact(k, &mut |s| {
                n += 1;
                // print -> parse round trip
                let t = to_text(s);
                let p = parse(&t).unwrap_or_else(|e| panic!("{} {:?}", t, e));
                assert_eq!(strip(&p), strip(s), "{}", t);
            });
            eprintln!("size {}: {}", k, n);
            total += n;
        }
        eprintln!("total {}", total);
        // firsts-based enumeration agrees
        let mut n4 = 0;
        g.for_each_exact(4, &mut |_| n4 += 1);
        let mut m2 = 0usize;
        for t in g.tasks(4) {
            g.for_each_with_prefix(4, &t, &mut |_| m2 += 1);
        }
        for c in 0..g.top_item_chunks() {
            g.for_each_top_item(c, &mut |_| m2 += 1);
        }
        assert_eq!(m2, n4);
        assert_eq!(n4, 240071);
    }
}

// ---------------------------------------------------------------------------------------------
// Position family (DESIGN §2.1): small cores wrapped in every nesting context
// ---------------------------------------------------------------------------------------------

#[derive(Clone, Copy, PartialEq, Eq, Debug)]
enum Wrap {
    Alt1,
    Alt2L,
    Alt2R,
    Rep12,
    Rep0,
    Rep1,
}

#[derive(Clone, Copy, PartialEq, Eq, Debug)]
enum Fill {
    None,
    OuterLeft,
    OuterRight,
    InnerLeft,
    InnerRight,
}

fn wrap_with(x: &Seq, w: Wrap, f: Fill, y: &[Kind]) -> Seq {
    let yn = || -> Seq { y.iter().map(|k| Node::new(k.clone())).collect() };
    let mut inner: Seq = vec![];
    if f == Fill::InnerLeft {
        inner.extend(yn());
    }
    inner.extend(x.iter().cloned());
    if f == Fill::InnerRight {
        inner.extend(yn());
    }
    let b = || vec![Node::new(lit("b"))];
    let node = match w {
        Wrap::Alt1 => Node::new(Kind::Alt(vec![inner])),
        Wrap::Alt2L => Node::new(Kind::Alt(vec![inner, b()])),
        Wrap::Alt2R => Node::new(Kind::Alt(vec![b(), inner])),
        Wrap::Rep12 => Node::new(Kind::Rep { body: inner, bounds: Bounds::Range("1".into(), Some("2".into())) }),
        Wrap::Rep0 => Node::new(Kind::Rep { body: inner, bounds: Bounds::None }),
        Wrap::Rep1 => Node::new(Kind::Rep { body: inner, bounds: Bounds::Exact("1".into()) }),
    };
    let mut out: Seq = vec![];
    if f == Fill::OuterLeft {
        out.extend(yn());
    }
    out.push(node);
    if f == Fill::OuterRight {
        out.extend(yn());
    }
    out
}

/// The position family, level by level: `levels[i]` holds every core wrapped i+1 times. `full`
/// selects the larger wrapper set (six wrappers), otherwise four wrappers; fillers a / * a/ /a.
pub struct PositionFamily {
    contexts: Vec<(Wrap, Fill, Vec<Kind>)>,
    pub levels: Vec<Vec<Seq>>,
}

pub fn position_cores() -> Vec<Seq> {
    [
        "a", "/", "*", "/a", "a/", "*a", "a*", "**/a", "a/**", "/**/a", "a/**/a", "/a/", "*/", "/*", "**/", "/**", "(?i)a", "a/a",
        "a/a/a",
    ]
    .iter()
    .filter_map(|t| crate::syntax::parse(t).ok())
    .map(|s| strip(&s))
    .collect()
}

impl PositionFamily {
    /// Materialises `depth` levels (the caller streams one more level with `wraps_of`).
    pub fn new(depth: usize, full: bool) -> PositionFamily {
        let cores: Vec<Seq> = position_cores();
        let wraps: Vec<Wrap> = if full {
            vec![Wrap::Alt1, Wrap::Alt2L, Wrap::Alt2R, Wrap::Rep12, Wrap::Rep0, Wrap::Rep1]
        }
        else {
            vec![Wrap::Alt1, Wrap::Alt2R, Wrap::Rep12, Wrap::Rep0]
        };
        let fillers: Vec<Vec<Kind>> = if full {
            vec![vec![lit("a")], vec![Kind::Sep], vec![Kind::Zom(false)], vec![lit("a"), Kind::Sep], vec![Kind::Sep, lit("a")]]
        }
        else {
            vec![vec![lit("a")], vec![Kind::Sep], vec![Kind::Zom(false)], vec![lit("a"), Kind::Sep], vec![Kind::Sep, lit("a")]]
        };
        let mut contexts: Vec<(Wrap, Fill, Vec<Kind>)> = vec![];
        for w in &wraps {
            contexts.push((*w, Fill::None, vec![Kind::Sep]));
            for f in [Fill::OuterLeft, Fill::OuterRight, Fill::InnerLeft, Fill::InnerRight] {
                for y in &fillers {
                    contexts.push((*w, f, y.clone()));
                }
            }
        }
        let mut fam = PositionFamily { contexts, levels: vec![] };
        let mut level: Vec<Seq> = cores;
        for _ in 0..depth {
            let mut next = vec![];
            for x in &level {
                fam.wraps_of(x, &mut |s| next.push(s.clone()));
            }
            next.sort();
            next.dedup();
            fam.levels.push(next.clone());
            level = next;
        }
        fam
    }

    /// Every canonical wrapping of `x` in one more context.
    pub fn wraps_of(&self, x: &Seq, f: &mut dyn FnMut(&Seq)) {
        for (w, fill, y) in &self.contexts {
            let s = crate::astops::normalize(&wrap_with(x, *w, *fill, y));
            if is_canonical(&s) {
                f(&s);
            }
        }
    }
}

/// Every core wrapped in every nesting context, nested up to `depth` levels (materialised).
pub fn position_family(depth: usize, full: bool) -> Vec<Seq> {
    PositionFamily::new(depth, full).levels.into_iter().flatten().collect()
}

/// Flag family: case flags before, between and inside groups at nesting depth <= 2, over cased
/// literals. This is the state space of the textual flag threading and of its encoding.
pub fn flag_family() -> Vec<Seq> {
    let flags: Vec<Option<bool>> = vec![None, Some(true), Some(false)];
    let f = |x: Option<bool>| -> Seq { x.map(|b| vec![Node::new(Kind::Flag(vec![b]))]).unwrap_or_default() };
    let l = |t: &str| Node::new(lit(t));
    let groups: Vec<fn(Seq) -> Node> = vec![
        |b| Node::new(Kind::Alt(vec![b])),
        |b| Node::new(Kind::Alt(vec![b, vec![Node::new(lit("c"))]])),
        |b| Node::new(Kind::Alt(vec![vec![Node::new(lit("c"))], b])),
        |b| Node::new(Kind::Rep { body: b, bounds: Bounds::Range("1".into(), Some("2".into())) }),
        |b| Node::new(Kind::Rep { body: b, bounds: Bounds::None }),
    ];
    let mut out = vec![];
    // the leading literal is cased (`a`: its case flag decides its language) or uncased (`.`: a
    // case-insensitive `.` is still invariant text, so what follows it is reported as invariant
    // while the encoder is in the case-insensitive state)
    for lead in ["a", "."] {
    for f1 in &flags {
        for f2 in &flags {
            for f3 in &flags {
                for g in &groups {
                    // f1 a f2 G(f3 b)
                    let mut s = f(*f1);
                    s.push(l(lead));
                    s.extend(f(*f2));
                    let mut body = f(*f3);
                    body.push(l("b"));
                    s.push(g(body.clone()));
                    out.push(s);
                    // G(f1 a) f2 b   and   G(f1 a) f2 [b]
                    let mut inner = f(*f1);
                    inner.push(l(lead));
                    let mut s = vec![g(inner.clone())];
                    s.extend(f(*f2));
                    s.push(l("b"));
                    out.push(s);
                    let mut s = vec![g(inner.clone())];
                    s.extend(f(*f2));
                    s.push(Node::new(class(false, &[ClassItem::Ch('b')])));
                    out.push(s);
                    // f1 a G(f2 b G'(f3 c))  with G' = single-branch alternation
                    let mut innermost = f(*f3);
                    innermost.push(l("c"));
                    let mut mid = f(*f2);
                    mid.push(l("b"));
                    mid.push(Node::new(Kind::Alt(vec![innermost])));
                    let mut s = f(*f1);
                    s.push(l(lead));
                    s.push(g(mid));
                    out.push(s);
                    // f1 a G(b) f3 c : flag state after a group
                    let mut s = f(*f1);
                    s.push(l(lead));
                    let mut body = f(*f2);
                    body.push(l("b"));
                    s.push(g(body));
                    s.extend(f(*f3));
                    s.push(l("c"));
                    out.push(s);
                }
            }
        }
    }
    }
    // flat sequences of flagged literals (no group): f1 L1 f2 L2 [f3 L3] over a cased and an uncased
    // literal - adjacent literal tokens that differ only in their flag
    for l1 in ["a", "."] {
        for l2 in ["b", "1"] {
            for f1 in &flags {
                for f2 in &flags {
                    let mut s = f(*f1);
                    s.push(l(l1));
                    s.extend(f(*f2));
                    s.push(l(l2));
                    out.push(s.clone());
                    for f3 in &flags {
                        let mut t = s.clone();
                        t.extend(f(*f3));
                        t.push(l("c"));
                        out.push(t);
                    }
                }
            }
        }
    }
    let mut out: Vec<Seq> = out.into_iter().map(|s| crate::astops::normalize(&s)).filter(|s| is_canonical(s)).collect();
    out.sort();
    out.dedup();
    out
}

/// Cased family: literals whose casing is not ASCII (or folds to something else) in the
/// positions where casing decides a query: under both flags, as prefix component, inside a
/// group, next to a wildcard.
pub fn cased_family() -> Vec<Seq> {
    let lits = ["é", "É", "ß", "ǅ", "k", "K", "\u{212A}", "İ", "σ", "ς", "Σ", "я", "Я", "aé", "é1", "1"];
    let templates = [
        "(?i)L", "(?-i)L", "L", "(?i)L/a", "(?i)L/*", "(?i)L/**", "a/(?i)L/b*", "(?-i)L/*", "{(?i)L}/a", "(?i){L,a}/*", "(?i)<L:1,2>/a",
        "(?i)a/(?-i)L/*", "(?i)L*", "*(?i)L", "(?i)[L]", "(?i)L[a]", "**/(?i)L", "(?i)La/b", "(?i)L/(?-i)L/*", "(?i)/L/*",
    ];
    let mut out = vec![];
    for l in lits {
        for t in templates {
            if t.contains("[L]") && l.chars().count() != 1 {
                continue;
            }
            let text = t.replace('L', l);
            if let Ok(ast) = crate::syntax::parse(&text) {
                out.push(strip(&ast));
            }
        }
    }
    out.sort();
    out.dedup();
    out
}

/// Adjacent-branch family: two branch tokens side by side in one concatenation (alone, after a
/// literal, before a literal, around a separator), each an alternation of two bodies, a
/// single-branch alternation or a repetition, over bodies that begin / end with a separator or a
/// tree wildcard or cross a component boundary. This is the state space of everything that
/// combines the summaries of two neighbouring branches (depth terms and their terminations,
/// text fragments, boundary adjacency, exhaustiveness tails): sizes 7-11, out of reach of the
/// size-bounded shape pass.
pub fn adjacent_family(full: bool) -> Vec<Seq> {
    let bodies: Vec<&str> = if full { vec!["a", "a/", "/a", "a/b", "*", "**/a", "a/**", "a/b/", "?"] } else { vec!["a", "a/", "/a", "a/b", "*", "**/a", "a/**"] };
    let mut groups: Vec<String> = vec![];
    for x in &bodies {
        groups.push(format!("{{{}}}", x));
        groups.push(format!("<{}:1,2>", x));
        groups.push(format!("<{}:0,1>", x));
        if full {
            groups.push(format!("<{}:2,>", x));
        }
        for y in &bodies {
            if x != y {
                groups.push(format!("{{{},{}}}", x, y));
            }
        }
    }
    if full {
        groups.push("{a/,a/b/,a/b/a/}".into());
        groups.push("{a,a/b,a/b/a}".into());
    }
    let mut out = vec![];
    for g1 in &groups {
        for g2 in &groups {
            for text in [format!("{}{}", g1, g2), format!("b{}{}", g1, g2), format!("{}{}b", g1, g2), format!("{}/{}", g1, g2)] {
                if let Ok(ast) = crate::syntax::parse(&text) {
                    out.push(strip(&ast));
                }
            }
        }
    }
    out.sort();
    out.dedup();
    out
}

/// Tail family: sequences of up to three tokens of the kind the exhaustiveness and depth analyses
/// scan at the end of a concatenation - zero-or-more and tree wildcards, separators and ranged
/// repetitions of wildcard-only bodies with every combination of small bounds, flat and nested -
/// alone and after a literal prefix. This is the state space of the arithmetic on ranges that two
/// neighbouring or nested repetitions perform.
pub fn tail_family(full: bool) -> Vec<Seq> {
    let bounds: Vec<&str> = if full { vec![":0,1", ":1,2", ":0,3", ":2,2", ":0,", ":2,", ":1", ""] } else { vec![":0,1", ":1,2", ":0,3", ":2,2", ":0,"] };
    let mut toks: Vec<String> = vec!["*".into(), "**".into(), "/".into(), "a".into()];
    for body in ["*/", "/*", "*", "a/"] {
        for b in &bounds {
            toks.push(format!("<{}{}>", body, b));
        }
    }
    for b1 in &bounds {
        for b2 in &bounds {
            toks.push(format!("<<*/{}>{}>", b1, b2));
        }
    }
    toks.push("{*/,a/}".into());
    toks.push("{*/,**/}".into());
    let mut out = vec![];
    let mut push = |text: String| {
        if let Ok(ast) = crate::syntax::parse(&text) {
            out.push(strip(&ast));
        }
    };
    for t1 in &toks {
        push(t1.clone());
        push(format!("a/{}", t1));
        for t2 in &toks {
            push(format!("{}{}", t1, t2));
            push(format!("a/{}{}", t1, t2));
            if !full && (t1.starts_with("<<") || t2.starts_with("<<")) {
                continue;
            }
            for t3 in ["*", "/", "**", "a", "<*/:0,1>", "<*/:1,2>"] {
                push(format!("{}{}{}", t1, t2, t3));
            }
        }
    }
    out.sort();
    out.dedup();
    out
}
