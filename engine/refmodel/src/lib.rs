pub mod astops;
pub mod automata;
pub mod fsworld;
pub mod gen;
pub mod lang;
pub mod rules;
pub mod syntax;
