pub mod astops;
pub mod automata;
pub mod gen;
pub mod lang;
pub mod syntax;
