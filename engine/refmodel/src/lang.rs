//! Reference language semantics of the documented dialect (DESIGN §2.4, `refmodel::lang`).
//!
//! The reference is three-valued: an expression may be *unspecified* as a whole (U4/U5), and
//! specified expressions carry prefix-closed path conditions (U1/U2/U3) under which a verdict is
//! not demanded. For specified expressions the reference language is written down as an
//! independent regular expression (own translation, own escaping, scoped flags) which the engine
//! determinises and explores in product with the implementation's automaton.
//!
//! Known deviations of the implementation can be switched on one by one (`Deviations`) so that a
//! mismatch can be attributed to a recorded finding only if the implementation equals
//! reference-plus-deviation on the whole product.

use crate::syntax::*;

#[derive(Clone, Copy, Debug, Default, PartialEq, Eq, Hash)]
pub struct Deviations {
    /// D1: rooted-first tree wildcard: trailing separator optional (`/**/x` == `/ .* /? x`)
    pub d1: bool,
    /// D2: a class takes the case flag the *regex* has in scope (flag of the last literal encoded
    /// before it in the same regex group)
    pub d2: bool,
    /// D3: characters of a tree wildcard exclude `\n`
    pub d3: bool,
    /// D4: nested trees take their form from the position in their own concatenation and the
    /// position of the outermost enclosing branch only
    pub d4: bool,
}

#[derive(Clone, Debug, PartialEq, Eq)]
pub struct Reference {
    pub regex: String,
    /// U2: verdict not demanded for paths that start with a separator
    pub u2: bool,
    /// U3: verdict not demanded for paths that do not start with a separator
    pub u3: bool,
}

#[derive(Clone, Debug, PartialEq, Eq)]
pub enum Spec {
    Specified(Reference),
    Unspecified(&'static str),
}

#[derive(Clone, Copy, PartialEq, Eq, Debug)]
pub enum Tri {
    No,
    Yes,
    Varies,
}

impl Tri {
    fn or_yes(self, local: bool) -> Tri {
        if local {
            Tri::Yes
        }
        else {
            self
        }
    }
}

#[derive(Clone, Copy, PartialEq, Eq, Debug)]
pub enum Pos {
    First,
    Middle,
    Last,
    Only,
}

fn pos_of(i: usize, n: usize) -> Pos {
    if n == 1 {
        Pos::Only
    }
    else if i == 0 {
        Pos::First
    }
    else if i + 1 == n {
        Pos::Last
    }
    else {
        Pos::Middle
    }
}

pub fn hex(c: char, out: &mut String) {
    if c.is_ascii_alphanumeric() {
        out.push(c);
    }
    else {
        out.push_str(&format!("\\x{{{:X}}}", c as u32));
    }
}

pub fn hex_str(s: &str) -> String {
    let mut o = String::new();
    for c in s.chars() {
        hex(c, &mut o);
    }
    o
}

/// Normalised, sorted, merged scalar ranges of a class after negation and separator subtraction.
pub fn class_ranges(neg: bool, items: &[ClassItem]) -> Option<Vec<(u32, u32)>> {
    let mut rs: Vec<(u32, u32)> = vec![];
    for it in items {
        match it {
            ClassItem::Ch(c) => rs.push((*c as u32, *c as u32)),
            ClassItem::Range(a, b) => {
                if a > b {
                    return None; // reversed range: outside the documented syntax
                }
                rs.push((*a as u32, *b as u32));
            },
        }
    }
    rs.sort();
    let mut merged: Vec<(u32, u32)> = vec![];
    for (a, b) in rs {
        if let Some(last) = merged.last_mut() {
            if a <= last.1 + 1 {
                last.1 = last.1.max(b);
                continue;
            }
        }
        merged.push((a, b));
    }
    let mut set = if neg {
        let mut out = vec![];
        let mut next = 0u32;
        for (a, b) in &merged {
            if *a > next {
                out.push((next, a - 1));
            }
            next = b + 1;
        }
        if next <= 0x10FFFF {
            out.push((next, 0x10FFFF));
        }
        out
    }
    else {
        merged
    };
    // subtract the separator and the surrogate gap
    for hole in [(0x2Fu32, 0x2Fu32), (0xD800, 0xDFFF)] {
        let mut out = vec![];
        for (a, b) in set {
            if b < hole.0 || a > hole.1 {
                out.push((a, b));
            }
            else {
                if a < hole.0 {
                    out.push((a, hole.0 - 1));
                }
                if b > hole.1 {
                    out.push((hole.1 + 1, b));
                }
            }
        }
        set = out;
    }
    Some(set)
}

fn class_regex(ranges: &[(u32, u32)]) -> String {
    if ranges.is_empty() {
        return "[a&&b]".to_string();
    }
    let mut o = String::from("[");
    for (a, b) in ranges {
        o.push_str(&format!("\\x{{{:X}}}", a));
        if b != a {
            o.push_str(&format!("-\\x{{{:X}}}", b));
        }
    }
    o.push(']');
    o
}

struct Ctx {
    left: Tri,
    right: Tri,
    /// something that is not an optional repetition lies to the left / right
    solid_left: bool,
    solid_right: bool,
    /// position of the outermost enclosing branch token in the top-level concatenation
    superpos: Option<Pos>,
}

struct Tr<'a> {
    dev: &'a Deviations,
    ci: bool,
    /// D2 bookkeeping: the flag the regex has in scope in the current group (None = default)
    regex_ci: bool,
    u2: bool,
    u3: bool,
    unspecified: Option<&'static str>,
    /// for the top-level sequence: (node index, start, end) of the regex text of each token
    token_slices: Vec<(usize, usize, usize)>,
}

fn is_optional(n: &Node) -> bool {
    match &n.kind {
        Kind::Rep { bounds, .. } => bounds.values().map_or(false, |(lo, _)| lo == 0),
        _ => false,
    }
}

impl<'a> Tr<'a> {
    fn any(&self) -> &'static str {
        if self.dev.d3 {
            "(?-s:.*)"
        }
        else {
            "(?s:.*)"
        }
    }

    fn seq(&mut self, seq: &[Node], ctx: &Ctx, top: bool, out: &mut String) {
        let toks: Vec<usize> = (0..seq.len()).filter(|i| !seq[*i].is_flag()).collect();
        let n = toks.len();
        for (i, node) in seq.iter().enumerate() {
            if let Kind::Flag(toggles) = &node.kind {
                for t in toggles {
                    self.ci = *t;
                }
                continue;
            }
            let k = toks.iter().position(|x| *x == i).unwrap();
            let local_left = k > 0;
            let local_right = k + 1 < n;
            let l = ctx.left.or_yes(local_left);
            let r = ctx.right.or_yes(local_right);
            let solid_l = ctx.solid_left || toks[..k].iter().any(|j| !is_optional(&seq[*j]));
            let solid_r = ctx.solid_right || toks[k + 1..].iter().any(|j| !is_optional(&seq[*j]));
            let own = pos_of(k, n);
            let slice_start = out.len();
            match &node.kind {
                Kind::Flag(_) => unreachable!(),
                Kind::Lit(t) => {
                    out.push_str(if self.ci { "(?i:" } else { "(?-i:" });
                    out.push_str(&hex_str(t));
                    out.push(')');
                    self.regex_ci = self.ci;
                },
                Kind::Sep => out.push('/'),
                Kind::One => out.push_str("[^/]"),
                Kind::Zom(_) => out.push_str("[^/]*"),
                Kind::Class { neg, items } => match class_ranges(*neg, items) {
                    None => self.unspecified = Some("reversed class range"),
                    Some(rs) => {
                        let ci = self.dev.d2 && self.regex_ci;
                        out.push_str(if ci { "(?i:" } else { "(?-i:" });
                        out.push_str(&class_regex(&rs));
                        out.push(')');
                    },
                },
                Kind::Tree { lead, trail } => {
                    self.tree(*lead, *trail, l, r, solid_l, solid_r, own, ctx.superpos, out);
                },
                Kind::Alt(branches) => {
                    let sup = if top { Some(own) } else { ctx.superpos };
                    let saved_regex_ci = self.regex_ci;
                    out.push_str("(?:");
                    for (bi, b) in branches.iter().enumerate() {
                        if bi > 0 {
                            out.push('|');
                        }
                        // every alternative is encoded in a group of its own: the regex flag
                        // scope restarts from the enclosing scope
                        self.regex_ci = saved_regex_ci;
                        out.push_str("(?:");
                        let c = Ctx { left: l, right: r, solid_left: solid_l, solid_right: solid_r, superpos: sup };
                        self.seq(b, &c, false, out);
                        out.push(')');
                    }
                    out.push(')');
                    self.regex_ci = saved_regex_ci;
                },
                Kind::Rep { body, bounds } => {
                    let sup = if top { Some(own) } else { ctx.superpos };
                    let Some((lo, hi)) = bounds.values() else {
                        self.unspecified = Some("bound does not fit the machine word");
                        continue;
                    };
                    let repeats = hi.map_or(true, |h| h > 1);
                    let (bl, br) = if repeats {
                        (
                            if l == Tri::Yes { Tri::Yes } else { Tri::Varies },
                            if r == Tri::Yes { Tri::Yes } else { Tri::Varies },
                        )
                    }
                    else {
                        (l, r)
                    };
                    let saved_regex_ci = self.regex_ci;
                    out.push_str("(?:");
                    let c = Ctx { left: bl, right: br, solid_left: solid_l, solid_right: solid_r, superpos: sup };
                    self.seq(body, &c, false, out);
                    match hi {
                        Some(h) => out.push_str(&format!("){{{},{}}}", lo, h)),
                        None => out.push_str(&format!("){{{},}}", lo)),
                    }
                    self.regex_ci = saved_regex_ci;
                },
            }
            if top {
                self.token_slices.push((i, slice_start, out.len()));
            }
        }
    }

    #[allow(clippy::too_many_arguments)]
    fn tree(
        &mut self,
        lead: bool,
        trail: bool,
        l: Tri,
        r: Tri,
        solid_l: bool,
        solid_r: bool,
        own: Pos,
        superpos: Option<Pos>,
        out: &mut String,
    ) {
        let any = self.any();
        // --- is the position specified at all? (the mirror of the encoder, D4, always is) ---
        if !self.dev.d4 {
            if l == Tri::Varies || r == Tri::Varies {
                self.unspecified = Some("U4: tree wildcard at the edge of a repeating body");
                return;
            }
            if !lead && l != Tri::No {
                self.unspecified = Some("U4: undelimited tree wildcard after a token (nested)");
                return;
            }
            if !trail && r != Tri::No {
                self.unspecified = Some("U4: undelimited tree wildcard before a token (nested)");
                return;
            }
            if (l == Tri::Yes && !solid_l) || (r == Tri::Yes && !solid_r) {
                self.unspecified = Some("U4: only optional repetitions beside a tree wildcard");
                return;
            }
            if trail && r == Tri::No && l != Tri::No {
                self.unspecified = Some("U5: tree wildcard with absorbed trailing separator ends the expression");
                return;
            }
        }
        let (l, r) = (l == Tri::Yes, r == Tri::Yes);
        // prunes follow the specification, not the deviation
        match (l, r) {
            (false, false) => {
                if lead {
                    self.u3 = true;
                }
            },
            (false, true) => {
                if !lead {
                    self.u2 = true;
                }
            },
            _ => {},
        }
        let intermediate = format!("/(?:{}/)?", any);
        let rooted_first = if self.dev.d1 { format!("/{}/?", any) } else { format!("/(?:{}/)?", any) };
        let unrooted_first = format!("(?:/?|{}/)", any);
        let last = format!("(?:/?|/{})", any);
        if self.dev.d4 {
            use Pos::*;
            let form = match own {
                First => {
                    if matches!(superpos, Some(Middle | Last)) {
                        intermediate
                    }
                    else if lead {
                        rooted_first
                    }
                    else {
                        unrooted_first
                    }
                },
                Middle => intermediate,
                Last => {
                    if matches!(superpos, Some(First | Middle)) {
                        intermediate
                    }
                    else {
                        last
                    }
                },
                Only => any.to_string(),
            };
            out.push_str(&form);
            return;
        }
        let form = match (l, r) {
            (false, false) => any.to_string(),
            (false, true) => {
                if lead {
                    rooted_first
                }
                else {
                    unrooted_first
                }
            },
            (true, true) => intermediate,
            (true, false) => last,
        };
        out.push_str(&form);
    }
}

/// Reference language of an expression as an anchored regular expression, or unspecified.
pub fn reference(seq: &[Node], dev: &Deviations) -> Spec {
    let mut tr = Tr { dev, ci: false, regex_ci: false, u2: false, u3: false, unspecified: None, token_slices: vec![] };
    let mut out = String::from("^");
    let ctx = Ctx { left: Tri::No, right: Tri::No, solid_left: false, solid_right: false, superpos: None };
    tr.seq(seq, &ctx, true, &mut out);
    out.push('$');
    match tr.unspecified {
        Some(why) => Spec::Unspecified(why),
        None => Spec::Specified(Reference { regex: out, u2: tr.u2, u3: tr.u3 }),
    }
}

/// Does the expression contain a tree wildcard anywhere?
pub fn has_tree(seq: &[Node]) -> bool {
    seq.iter().any(|n| match &n.kind {
        Kind::Tree { .. } => true,
        Kind::Alt(bs) => bs.iter().any(|b| has_tree(b)),
        Kind::Rep { body, .. } => has_tree(body),
        _ => false,
    })
}

pub fn has_flag(seq: &[Node]) -> bool {
    seq.iter().any(|n| match &n.kind {
        Kind::Flag(_) => true,
        Kind::Alt(bs) => bs.iter().any(|b| has_flag(b)),
        Kind::Rep { body, .. } => has_flag(body),
        _ => false,
    })
}

pub fn has_class(seq: &[Node]) -> bool {
    seq.iter().any(|n| match &n.kind {
        Kind::Class { .. } => true,
        Kind::Alt(bs) => bs.iter().any(|b| has_class(b)),
        Kind::Rep { body, .. } => has_class(body),
        _ => false,
    })
}

#[cfg(test)]
mod tests {
    use super::*;
    use crate::automata::Dfa;

    fn lang(e: &str) -> Dfa {
        match reference(&parse(e).unwrap(), &Deviations::default()) {
            Spec::Specified(r) => Dfa::new(&r.regex).unwrap(),
            Spec::Unspecified(w) => panic!("{} unspecified: {}", e, w),
        }
    }

    #[test]
    fn basics() {
        let d = lang("a/**/b");
        assert!(d.accepts("a/b") && d.accepts("a/x/b") && d.accepts("a/x\ny/b") && !d.accepts("a/xb"));
        let d = lang("/**/a");
        assert!(d.accepts("/a") && d.accepts("/x/a") && !d.accepts("/xa"));
        let d = lang("(?i)a[b]");
        assert!(d.accepts("ab") && d.accepts("Ab") && !d.accepts("aB"));
        let d = lang("a/**");
        assert!(d.accepts("a") && d.accepts("a/") && d.accepts("a/b/c") && !d.accepts("ab"));
        let d = lang("{a,b}<c:1,2>");
        assert!(d.accepts("ac") && d.accepts("bcc") && !d.accepts("a") && !d.accepts("accc"));
        assert!(matches!(reference(&parse("x{**/a,b}").unwrap(), &Deviations::default()), Spec::Unspecified(_)));
        assert!(matches!(reference(&parse("<a/**/:1,2>").unwrap(), &Deviations::default()), Spec::Unspecified(_)));
    }
}

/// The recorded behaviour of the implementation's encoder (deviations D1 and D4 on): defined for
/// every expression, used only to attribute an alarm to a recorded finding.
pub fn mirror_regex(seq: &[Node]) -> String {
    let dev = Deviations { d1: true, d2: false, d3: false, d4: true };
    match reference(seq, &dev) {
        Spec::Specified(r) => r.regex,
        Spec::Unspecified(_) => "^[a&&b]$".to_string(),
    }
}

/// Reference sub-languages of the top-level tokens: for each non-flag node of the top-level
/// sequence (by node index) the reference regex text of that token in its context (no anchors).
/// None if the expression is unspecified.
pub fn token_regexes(seq: &[Node], dev: &Deviations) -> Option<Vec<(usize, String)>> {
    let mut tr = Tr { dev, ci: false, regex_ci: false, u2: false, u3: false, unspecified: None, token_slices: vec![] };
    let mut out = String::new();
    let ctx = Ctx { left: Tri::No, right: Tri::No, solid_left: false, solid_right: false, superpos: None };
    tr.seq(seq, &ctx, true, &mut out);
    if tr.unspecified.is_some() {
        return None;
    }
    Some(tr.token_slices.iter().map(|(i, a, b)| (*i, out[*a..*b].to_string())).collect())
}
