//! AST surgery used by the algebraic laws (C07) and by the rule reference (C06): branch
//! substitution, unrolling, wrapping, with the textual flag state kept faithful.

use crate::syntax::*;

/// Path to a node: [index in top sequence, (branch index, index in that branch)*]. For a
/// repetition body the branch index is 0.
pub type Path = Vec<usize>;

/// Flag state after reading `seq` textually, starting from `ci`.
pub fn flag_flow(seq: &[Node], mut ci: bool) -> bool {
    for n in seq {
        match &n.kind {
            Kind::Flag(t) => {
                for x in t {
                    ci = *x;
                }
            },
            Kind::Alt(bs) => {
                for b in bs {
                    ci = flag_flow(b, ci);
                }
            },
            Kind::Rep { body, .. } => ci = flag_flow(body, ci),
            _ => {},
        }
    }
    ci
}

pub fn branch_sites(seq: &[Node]) -> Vec<Path> {
    fn walk(seq: &[Node], path: &mut Path, out: &mut Vec<Path>) {
        for (i, n) in seq.iter().enumerate() {
            path.push(i);
            match &n.kind {
                Kind::Alt(bs) => {
                    out.push(path.clone());
                    for (j, b) in bs.iter().enumerate() {
                        path.push(j);
                        walk(b, path, out);
                        path.pop();
                    }
                },
                Kind::Rep { body, .. } => {
                    out.push(path.clone());
                    path.push(0);
                    walk(body, path, out);
                    path.pop();
                },
                _ => {},
            }
            path.pop();
        }
    }
    let mut out = vec![];
    walk(seq, &mut vec![], &mut out);
    out
}

pub fn node_at<'a>(seq: &'a [Node], path: &[usize]) -> &'a Node {
    let n = &seq[path[0]];
    if path.len() == 1 {
        return n;
    }
    match &n.kind {
        Kind::Alt(bs) => node_at(&bs[path[1]], &path[2..]),
        Kind::Rep { body, .. } => node_at(body, &path[2..]),
        _ => unreachable!(),
    }
}

/// Flag state textually right before the node at `path`.
pub fn ci_before(seq: &[Node], path: &[usize], mut ci: bool) -> bool {
    let idx = path[0];
    ci = flag_flow(&seq[..idx], ci);
    if path.len() == 1 {
        return ci;
    }
    match &seq[idx].kind {
        Kind::Alt(bs) => {
            for b in &bs[..path[1]] {
                ci = flag_flow(b, ci);
            }
            ci_before(&bs[path[1]], &path[2..], ci)
        },
        Kind::Rep { body, .. } => ci_before(body, &path[2..], ci),
        _ => unreachable!(),
    }
}

/// Is the node at `path` the last node of its own concatenation?
pub fn is_last_in_concat(seq: &[Node], path: &[usize]) -> bool {
    if path.len() == 1 {
        return path[0] + 1 == seq.len();
    }
    match &seq[path[0]].kind {
        Kind::Alt(bs) => is_last_in_concat(&bs[path[1]], &path[2..]),
        Kind::Rep { body, .. } => is_last_in_concat(body, &path[2..]),
        _ => unreachable!(),
    }
}

/// Replaces the node at `path` by the nodes of `replacement`, spliced into its concatenation.
pub fn splice(seq: &[Node], path: &[usize], replacement: &[Node]) -> Seq {
    let mut out: Seq = vec![];
    for (i, n) in seq.iter().enumerate() {
        if i != path[0] {
            out.push(n.clone());
            continue;
        }
        if path.len() == 1 {
            out.extend(replacement.iter().cloned());
            continue;
        }
        let kind = match &n.kind {
            Kind::Alt(bs) => Kind::Alt(
                bs.iter()
                    .enumerate()
                    .map(|(j, b)| if j == path[1] { splice(b, &path[2..], replacement) } else { b.clone() })
                    .collect(),
            ),
            Kind::Rep { body, bounds } => {
                Kind::Rep { body: splice(body, &path[2..], replacement), bounds: bounds.clone() }
            },
            _ => unreachable!(),
        };
        out.push(Node::new(kind));
    }
    out
}

/// Merges adjacent literals (recursively) and removes empty flag artefacts.
pub fn normalize(seq: &[Node]) -> Seq {
    let mut out: Seq = vec![];
    for n in seq {
        let n2 = match &n.kind {
            Kind::Alt(bs) => Node::new(Kind::Alt(bs.iter().map(|b| normalize(b)).collect())),
            Kind::Rep { body, bounds } => Node::new(Kind::Rep { body: normalize(body), bounds: bounds.clone() }),
            k => Node::new(k.clone()),
        };
        if let (Some(Node { kind: Kind::Lit(prev), .. }), Kind::Lit(cur)) = (out.last_mut(), &n2.kind) {
            prev.push_str(cur);
            continue;
        }
        out.push(n2);
    }
    out
}

fn flag(ci: bool) -> Node {
    Node::new(Kind::Flag(vec![ci]))
}

/// Members of the substitution family of the alternation at `path`: E[b_1], ..., E[b_n], with
/// flag nodes inserted so that every literal keeps the case flag it has in E. `None` if the
/// flags cannot be kept faithful (a flag would have to trail a sub-expression).
pub fn alt_members(seq: &[Node], path: &[usize]) -> Option<Vec<Seq>> {
    let Kind::Alt(branches) = &node_at(seq, path).kind else { return None };
    let ci0 = ci_before(seq, path, false);
    let mut ci_after = ci0;
    for b in branches {
        ci_after = flag_flow(b, ci_after);
    }
    let last = is_last_in_concat(seq, path);
    let mut members = vec![];
    let mut ci_start = ci0;
    for b in branches {
        let mut rep: Seq = vec![];
        if ci_start != ci0 {
            rep.push(flag(ci_start));
        }
        rep.extend(b.iter().cloned());
        let ci_end = flag_flow(b, ci_start);
        if ci_end != ci_after {
            if last {
                return None;
            }
            rep.push(flag(ci_after));
        }
        members.push(normalize(&splice(seq, path, &rep)));
        ci_start = ci_end;
    }
    Some(members)
}

/// E with the repetition at `path` written out `n` times (flags kept faithful).
pub fn rep_member(seq: &[Node], path: &[usize], n: usize) -> Option<Seq> {
    let Kind::Rep { body, .. } = &node_at(seq, path).kind else { return None };
    let ci0 = ci_before(seq, path, false);
    let ci_end = flag_flow(body, ci0);
    let last = is_last_in_concat(seq, path);
    let mut rep: Seq = vec![];
    if n == 0 {
        if ci_end != ci0 {
            if last {
                return None;
            }
            rep.push(flag(ci_end));
        }
    }
    else {
        for k in 0..n {
            if k > 0 && ci_end != ci0 {
                rep.push(flag(ci0));
            }
            rep.extend(body.iter().cloned());
        }
    }
    let out = normalize(&splice(seq, path, &rep));
    Some(out)
}

/// Wraps the top-level sub-sequence [i, j) in `{..}`, `<..:1>` or `<..:1,1>`.
pub fn wrap(seq: &[Node], i: usize, j: usize, how: usize) -> Seq {
    let inner: Seq = seq[i..j].to_vec();
    let wrapped = match how {
        0 => Node::new(Kind::Alt(vec![inner])),
        1 => Node::new(Kind::Rep { body: inner, bounds: Bounds::Exact("1".into()) }),
        _ => Node::new(Kind::Rep { body: inner, bounds: Bounds::Range("1".into(), Some("1".into())) }),
    };
    let mut out: Seq = seq[..i].to_vec();
    out.push(wrapped);
    out.extend(seq[j..].iter().cloned());
    out
}

pub fn contains_tree(seq: &[Node]) -> bool {
    crate::lang::has_tree(seq)
}

/// a tree wildcard nested inside a branch token
pub fn nested_tree(seq: &[Node], inside: bool) -> bool {
    seq.iter().any(|n| match &n.kind {
        Kind::Tree { .. } => inside,
        Kind::Alt(bs) => bs.iter().any(|b| nested_tree(b, true)),
        Kind::Rep { body, .. } => nested_tree(body, true),
        _ => false,
    })
}

/// Is the node at `path` inside the body of a repetition that may iterate more than once?
pub fn under_repeating(seq: &[Node], path: &[usize]) -> bool {
    if path.len() == 1 {
        return false;
    }
    match &seq[path[0]].kind {
        Kind::Alt(bs) => under_repeating(&bs[path[1]], &path[2..]),
        Kind::Rep { body, bounds } => {
            let repeats = bounds.values().map_or(true, |(_, hi)| hi.map_or(true, |h| h > 1));
            repeats || under_repeating(body, &path[2..])
        },
        _ => unreachable!(),
    }
}

/// The expression consists solely of one tree wildcard (flags ignored).
pub fn is_sole_tree(seq: &[Node]) -> bool {
    let toks: Vec<&Node> = seq.iter().filter(|n| !n.is_flag()).collect();
    toks.len() == 1 && toks[0].is_tree()
}
