//! Reference rule checker (DESIGN Appendix D): the documented rules evaluated compositionally
//! over all expansions (one branch per alternation, every permitted count per repetition), not
//! by neighbour inspection. Three-valued.

use crate::syntax::*;

#[derive(Clone, Debug, PartialEq, Eq)]
pub enum Verdict {
    MustBuild,
    MustFail(&'static str),
    Unspecified(&'static str),
}

#[derive(Clone, Copy, Debug, PartialEq, Eq, Hash, PartialOrd, Ord)]
enum Tok {
    Boundary,
    Zom,
    Other,
}

#[derive(Clone, Debug, Default)]
struct Summary {
    firsts: Vec<Tok>,
    lasts: Vec<Tok>,
    /// adjacent boundaries / zero-or-more wildcards inside some expansion
    bb: bool,
    zz: bool,
}

fn push(v: &mut Vec<Tok>, t: Tok) {
    if !v.contains(&t) {
        v.push(t);
    }
}

fn cross(a: &[Tok], b: &[Tok], t: Tok) -> bool {
    a.contains(&t) && b.contains(&t)
}

/// `repeat_all`: every repetition may repeat (bounds ignored); otherwise only those whose upper
/// bound permits a second iteration. `zom_repeat`: adjacency of zero-or-more wildcards is only
/// considered with every count = 1.
fn summarize(seq: &[Node], repeat_all: bool) -> Summary {
    let mut acc: Option<Summary> = None;
    for n in seq {
        let s = match &n.kind {
            Kind::Flag(_) => continue,
            Kind::Sep | Kind::Tree { .. } => Summary { firsts: vec![Tok::Boundary], lasts: vec![Tok::Boundary], bb: false, zz: false },
            Kind::Zom(_) => Summary { firsts: vec![Tok::Zom], lasts: vec![Tok::Zom], bb: false, zz: false },
            Kind::Lit(_) | Kind::One | Kind::Class { .. } => {
                Summary { firsts: vec![Tok::Other], lasts: vec![Tok::Other], bb: false, zz: false }
            },
            Kind::Alt(bs) => {
                let mut u = Summary::default();
                for b in bs {
                    let s = summarize(b, repeat_all);
                    for t in s.firsts {
                        push(&mut u.firsts, t);
                    }
                    for t in s.lasts {
                        push(&mut u.lasts, t);
                    }
                    u.bb |= s.bb;
                    u.zz |= s.zz;
                }
                u
            },
            Kind::Rep { body, bounds } => {
                let mut s = summarize(body, repeat_all);
                let can_repeat = repeat_all || bounds.values().map_or(true, |(_, hi)| hi.map_or(true, |h| h >= 2));
                if can_repeat && cross(&s.lasts, &s.firsts, Tok::Boundary) {
                    s.bb = true;
                }
                s
            },
        };
        acc = Some(match acc {
            None => s,
            Some(a) => Summary {
                bb: a.bb || s.bb || cross(&a.lasts, &s.firsts, Tok::Boundary),
                zz: a.zz || s.zz || cross(&a.lasts, &s.firsts, Tok::Zom),
                firsts: a.firsts,
                lasts: s.lasts,
            },
        });
    }
    acc.unwrap_or_default()
}

fn tokens(seq: &[Node]) -> Vec<&Node> {
    seq.iter().filter(|n| !n.is_flag()).collect()
}

fn singular(seq: &[Node]) -> Option<&'static str> {
    for n in seq {
        match &n.kind {
            Kind::Alt(bs) => {
                for b in bs {
                    let t = tokens(b);
                    if t.len() == 1 && t[0].is_tree() {
                        return Some("alternative is a singular tree wildcard");
                    }
                    if let Some(r) = singular(b) {
                        return Some(r);
                    }
                }
            },
            Kind::Rep { body, .. } => {
                let t = tokens(body);
                if t.len() == 1 {
                    match t[0].kind {
                        Kind::Tree { .. } => return Some("repetition of a singular tree wildcard"),
                        Kind::Sep => return Some("repetition of a singular separator"),
                        Kind::Zom(_) => return Some("repetition of a singular zero-or-more wildcard"),
                        _ => {},
                    }
                }
                if let Some(r) = singular(body) {
                    return Some(r);
                }
            },
            _ => {},
        }
    }
    None
}

fn bounds_rule(seq: &[Node]) -> Option<&'static str> {
    for n in seq {
        match &n.kind {
            Kind::Alt(bs) => {
                for b in bs {
                    if let Some(r) = bounds_rule(b) {
                        return Some(r);
                    }
                }
            },
            Kind::Rep { body, bounds } => {
                match bounds.values() {
                    None => return Some("bound does not fit the machine word"),
                    Some((lo, Some(hi))) => {
                        if lo > hi || (lo == 0 && hi == 0) {
                            return Some("incompatible repetition bounds");
                        }
                    },
                    _ => {},
                }
                if let Some(r) = bounds_rule(body) {
                    return Some(r);
                }
            },
            _ => {},
        }
    }
    None
}

#[derive(Clone, Copy, PartialEq, Eq, Debug)]
enum Before {
    Nothing,
    OnlyOptional,
    Something,
}

/// Returns (certain rooting, possible rooting through optional repetitions).
fn rooting(seq: &[Node], mut st: Before, forbidden: bool, certain: &mut bool, maybe: &mut bool) -> Before {
    for n in seq {
        if st == Before::Something {
            break;
        }
        match &n.kind {
            Kind::Flag(_) => continue,
            Kind::Sep | Kind::Tree { lead: true, .. } => {
                if forbidden {
                    if st == Before::Nothing {
                        *certain = true;
                    }
                    else {
                        *maybe = true;
                    }
                }
                st = Before::Something;
            },
            Kind::Alt(bs) => {
                for b in bs {
                    rooting(b, st, true, certain, maybe);
                }
                st = Before::Something;
            },
            Kind::Rep { body, bounds } => {
                let optional = bounds.values().map_or(false, |(lo, _)| lo == 0);
                rooting(body, st, forbidden || optional, certain, maybe);
                if optional {
                    if st == Before::Nothing {
                        st = Before::OnlyOptional;
                    }
                }
                else {
                    st = Before::Something;
                }
            },
            _ => st = Before::Something,
        }
    }
    st
}

/// (true invariant text length if the text is invariant, pessimistic maximum if bounded)
fn sizes(seq: &[Node], must_fail: &mut bool, may_fail: &mut bool) -> (Option<usize>, Option<usize>) {
    const LIMIT: usize = 0x10000;
    let mut inv = Some(0usize);
    let mut pess = Some(0usize);
    let add = |a: Option<usize>, b: Option<usize>| -> Option<usize> { Some(a?.saturating_add(b?)) };
    for n in seq {
        let (i, p) = match &n.kind {
            Kind::Flag(_) => continue,
            Kind::Lit(t) => (Some(t.len()), Some(t.len())),
            Kind::Sep => (Some(1), Some(1)),
            Kind::One | Kind::Class { .. } => (None, Some(4)),
            Kind::Zom(_) | Kind::Tree { .. } => (None, None),
            Kind::Alt(bs) => {
                let mut pm = Some(0usize);
                for b in bs {
                    let (_, p) = sizes(b, must_fail, may_fail);
                    pm = match (pm, p) {
                        (Some(a), Some(b)) => Some(a.max(b)),
                        _ => None,
                    };
                }
                (None, pm)
            },
            Kind::Rep { body, bounds } => {
                let (bi, bp) = sizes(body, must_fail, may_fail);
                match bounds.values() {
                    Some((lo, Some(hi))) if lo == hi => (bi.map(|x| x.saturating_mul(lo)), bp.map(|x| x.saturating_mul(hi))),
                    Some((_, Some(hi))) => (None, bp.map(|x| x.saturating_mul(hi))),
                    _ => (None, None),
                }
            },
        };
        if let Some(i) = i {
            if i >= LIMIT {
                *must_fail = true;
            }
        }
        if let Some(p) = p {
            if p >= LIMIT {
                *may_fail = true;
            }
        }
        inv = add(inv, i);
        pess = add(pess, p);
    }
    if let Some(i) = inv {
        if i >= LIMIT {
            *must_fail = true;
        }
    }
    if let Some(p) = pess {
        if p >= LIMIT {
            *may_fail = true;
        }
    }
    (inv, pess)
}

pub fn check(seq: &[Node]) -> Verdict {
    if let Some(r) = bounds_rule(seq) {
        return Verdict::MustFail(r);
    }
    if let Some(r) = singular(seq) {
        return Verdict::MustFail(r);
    }
    let permitted = summarize(seq, false);
    if permitted.bb {
        return Verdict::MustFail("adjacent component boundaries");
    }
    if permitted.zz {
        return Verdict::MustFail("adjacent zero-or-more wildcards");
    }
    let mut certain = false;
    let mut maybe = false;
    rooting(seq, Before::Nothing, false, &mut certain, &mut maybe);
    if certain {
        return Verdict::MustFail("rooting branch");
    }
    let mut must_fail = false;
    let mut may_fail = false;
    sizes(seq, &mut must_fail, &mut may_fail);
    if must_fail {
        return Verdict::MustFail("oversized invariant text");
    }
    // unspecified bands
    let all = summarize(seq, true);
    if all.bb {
        return Verdict::Unspecified("boundaries adjacent only beyond the permitted number of repetitions");
    }
    if maybe {
        return Verdict::Unspecified("rooting token preceded only by optional repetitions");
    }
    if may_fail {
        return Verdict::Unspecified("pessimistic size at the limit");
    }
    Verdict::MustBuild
}

/// Which rule decides rooting for this expression (used to attribute has_root()=Sometimes).
pub fn roots_through_branch(seq: &[Node]) -> bool {
    let mut certain = false;
    let mut maybe = false;
    rooting(seq, Before::Nothing, false, &mut certain, &mut maybe);
    certain || maybe
}

#[cfg(test)]
mod tests {
    use super::*;

    fn v(e: &str) -> Verdict {
        check(&parse(e).unwrap())
    }

    #[test]
    fn rules() {
        assert_eq!(v("a/b"), Verdict::MustBuild);
        assert!(matches!(v("a//b"), Verdict::MustFail(_)));
        assert!(matches!(v("a/{/b,c}"), Verdict::MustFail(_)));
        assert!(matches!(v("{a,/b}"), Verdict::MustFail(_)));
        assert!(matches!(v("<a/**:1,>/b"), Verdict::MustFail(_)));
        assert_eq!(v("a/<b/**:1,>"), Verdict::MustBuild);
        assert!(matches!(v("*{a,*b}"), Verdict::MustFail(_)));
        assert_eq!(v("*{a,b*}"), Verdict::MustBuild);
        assert!(matches!(v("{a,**}"), Verdict::MustFail(_)));
        assert!(matches!(v("</:1,>"), Verdict::MustFail(_)));
        assert!(matches!(v("<*:1,>"), Verdict::MustFail(_)));
        assert!(matches!(v("</a:0,>"), Verdict::MustFail(_)));
        assert_eq!(v("</a:1,>"), Verdict::MustBuild);
        assert!(matches!(v("<a:2,1>"), Verdict::MustFail(_)));
        assert!(matches!(v("</a/:1>"), Verdict::Unspecified(_)));
        assert!(matches!(v("</a/:1,2>"), Verdict::MustFail(_)));
        assert_eq!(v("{a/}x{/c}"), Verdict::MustBuild);
        assert_eq!(v("{a}{*}"), Verdict::MustBuild);
        assert!(matches!(v("<</a:>>"), Verdict::MustFail(_)));
        assert!(matches!(v("{</a:>}"), Verdict::MustFail(_)));
        assert!(matches!(v("a<{/}>"), Verdict::MustFail(_)));
        assert_eq!(v("(?i)**/a"), Verdict::MustBuild);
        assert!(matches!(v("<a:0,>{/b,c}"), Verdict::Unspecified(_)));
    }
}
